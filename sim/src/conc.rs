//! CONC world: 2-4 real client threads share one real Memfs. Only one thread ever runs: every
//! thread parks at each guard acquisition (hook H1) and at each operation boundary, and a seeded
//! controller decides who proceeds, modelling a writer-preferring RwLock. Checked while the run
//! proceeds: deadlock, panic, poison, C03 at quiescent points. Checked over the recorded history:
//! linearizability against sequential executions of the real code, append conservation.
use std::{
    path::{Path, PathBuf},
    sync::{Arc, Condvar, Mutex},
};

use rivia::prelude::*;
use serde::{Deserialize, Serialize};
use serde_json::json;

use crate::{
    exec::{self, Handles},
    gen::{Gen, Profile},
    hooks::{apply_order, Knobs},
    model::Model,
    ops::*,
    prng::{hash_bytes, hash_str, mix, Rng},
    refpath::Env,
    report::{Stats, Violation},
    seq,
    supervisor::{pick_knobs, Finding},
    tree,
};

#[derive(Clone, Copy, Debug, PartialEq, Eq)]
enum Point {
    Op(usize),
    Acquire(bool),
}

#[derive(Clone, Copy, Debug, PartialEq, Eq)]
enum Status {
    Running,
    Parked(Point),
    Done,
}

#[derive(Default)]
struct LockModel {
    holders_r: Vec<usize>,
    holder_w: Option<usize>,
    /// queued acquisitions: (tid, write, eligible to re-attempt)
    blocked: Vec<(usize, bool, bool)>,
}

impl LockModel {
    fn grantable(&self, tid: usize, write: bool) -> bool {
        if write {
            self.holder_w.is_none() && self.holders_r.is_empty()
        } else {
            // writer preference: a reader is not admitted while a writer is queued
            self.holder_w.is_none() && !self.blocked.iter().any(|(t, w, _)| *w && *t != tid)
        }
    }
    fn refresh(&mut self) {
        let free = self.holder_w.is_none() && self.holders_r.is_empty();
        let no_writer = self.holder_w.is_none();
        let writers_queued = self.blocked.iter().any(|(_, w, _)| *w);
        for b in self.blocked.iter_mut() {
            b.2 = if b.1 { free } else { no_writer && !writers_queued };
        }
    }
}

struct State {
    status: Vec<Status>,
    go: Vec<bool>,
    abort: bool,
    lock: LockModel,
    seq: u64,
    /// log of scheduler events (for the event-log hash and for reports)
    log: Vec<(u64, usize, &'static str)>,
    nested_seen: u64,
}

struct Shared {
    m: Mutex<State>,
    cv_ctrl: Condvar,
    cv_thr: Vec<Condvar>,
}

struct AbortRun;

impl Shared {
    fn park(&self, tid: usize, point: Point) {
        let mut st = self.m.lock().unwrap();
        st.status[tid] = Status::Parked(point);
        self.cv_ctrl.notify_one();
        while !st.go[tid] && !st.abort {
            st = self.cv_thr[tid].wait(st).unwrap();
        }
        if !st.go[tid] && st.abort {
            st.status[tid] = Status::Running;
            drop(st);
            // leave the operation by unwinding: the run is over (deadlock or teardown)
            std::panic::resume_unwind(Box::new(AbortRun));
        }
        st.go[tid] = false;
        st.status[tid] = Status::Running;
    }
    fn stamp(&self, tid: usize, what: &'static str) -> u64 {
        let mut st = self.m.lock().unwrap();
        st.seq += 1;
        let s = st.seq;
        st.log.push((s, tid, what));
        s
    }
    fn finish(&self, tid: usize) {
        let mut st = self.m.lock().unwrap();
        st.status[tid] = Status::Done;
        self.cv_ctrl.notify_one();
    }
}

struct ConcHooks {
    tid: usize,
    sh: Arc<Shared>,
    knobs: Knobs,
}

impl rivia::verif::Hooks for ConcHooks {
    fn before_acquire(&self, write: bool) {
        self.sh.park(self.tid, Point::Acquire(write));
    }
    fn released(&self, write: bool) {
        let mut st = self.sh.m.lock().unwrap();
        if write {
            if st.lock.holder_w == Some(self.tid) {
                st.lock.holder_w = None;
            }
        } else if let Some(i) = st.lock.holders_r.iter().position(|t| *t == self.tid) {
            st.lock.holders_r.remove(i);
        }
        st.lock.refresh();
        st.seq += 1;
        let s = st.seq;
        st.log.push((s, self.tid, if write { "release-w" } else { "release-r" }));
    }
    fn dir_order(&self, dir: &Path, items: &mut Vec<PathBuf>) {
        apply_order(&self.knobs, dir, items);
    }
    fn max_descriptors(&self) -> Option<u16> {
        self.knobs.max_desc
    }
}

#[derive(Clone, Debug, Serialize, Deserialize)]
pub struct ConcCase {
    pub format: u32,
    pub property: String,
    pub world: String,
    pub seed: u64,
    pub run: u64,
    pub knobs: Knobs,
    pub env: Env,
    pub setup: Vec<Op>,
    pub threads: Vec<Vec<Op>>,
    /// index into the sorted list of attemptable threads at every scheduler decision
    pub schedule: Vec<usize>,
    /// true: operations are single-step and the history is checked for linearizability
    pub linearizable: bool,
    pub expect: Option<seq::ExpectSig>,
    pub log_hash: String,
    #[serde(default)]
    pub what: String,
}

#[derive(Clone, Debug)]
pub struct OpRecord {
    pub tid: usize,
    pub idx: usize,
    pub inv: u64,
    pub ret: u64,
    pub out: Outcome,
}

pub struct ConcOut {
    pub schedule: Vec<usize>,
    pub records: Vec<OpRecord>,
    pub violations: Vec<Violation>,
    pub log_hash: u64,
    pub events: u64,
    pub switches: u64,
    pub nested: u64,
    pub final_snap: Option<rivia::verif::VerifSnapshot>,
    pub queued: u64,
    pub multi_guard: u64,
    pub preempted_between: u64,
}

enum Chooser<'a> {
    Random { rng: &'a mut Rng, pct: Option<Vec<u64>> },
    Replay { list: &'a [usize], pos: usize },
}

fn apply_setup(fs: &Memfs, setup: &[Op], knobs: &Knobs) {
    let h = crate::hooks::install_seq(knobs);
    let mut hs = Handles::default();
    for op in setup {
        let _ = exec::exec(fs, &mut hs, op);
    }
    hs.clear();
    drop(h);
    crate::hooks::uninstall();
}

/// Execute one (program, schedule) pair
fn execute(case: &ConcCase, chooser: &mut Chooser) -> ConcOut {
    seq::set_env(&case.env);
    let fs = Arc::new(Memfs::new());
    apply_setup(&fs, &case.setup, &case.knobs);
    let n = case.threads.len();
    let sh = Arc::new(Shared {
        m: Mutex::new(State {
            status: vec![Status::Running; n],
            go: vec![false; n],
            abort: false,
            lock: LockModel::default(),
            seq: 0,
            log: vec![],
            nested_seen: 0,
        }),
        cv_ctrl: Condvar::new(),
        cv_thr: (0..n).map(|_| Condvar::new()).collect(),
    });
    let records: Arc<Mutex<Vec<OpRecord>>> = Arc::new(Mutex::new(vec![]));
    let mut joins = vec![];
    for (tid, ops) in case.threads.iter().enumerate() {
        let (fs, sh, ops, knobs, records) = (fs.clone(), sh.clone(), ops.clone(), case.knobs.clone(), records.clone());
        joins.push(std::thread::spawn(move || {
            rivia::verif::install(Some(Arc::new(ConcHooks { tid, sh: sh.clone(), knobs })));
            let mut hs = Handles::default();
            let res = std::panic::catch_unwind(std::panic::AssertUnwindSafe(|| {
                for (i, op) in ops.iter().enumerate() {
                    sh.park(tid, Point::Op(i));
                    let inv = sh.stamp(tid, "invoke");
                    let out = exec::exec(&*fs, &mut hs, op);
                    let ret = sh.stamp(tid, "return");
                    let aborted = matches!(&out, Outcome::Panic(m) if m == "<non-string panic>") && sh.m.lock().unwrap().abort;
                    if !aborted {
                        records.lock().unwrap().push(OpRecord { tid, idx: i, inv, ret, out });
                    }
                }
                // handles still open are dropped here, under the scheduler like everything else
                hs.clear();
            }));
            let _ = res;
            rivia::verif::install(None);
            sh.finish(tid);
        }));
    }

    let mut schedule = vec![];
    let mut violations = vec![];
    let mut switches = 0u64;
    let mut last: Option<usize> = None;
    let mut decisions = 0u64;
    loop {
        let mut st = sh.m.lock().unwrap();
        while st.status.iter().any(|s| *s == Status::Running) {
            st = sh.cv_ctrl.wait(st).unwrap();
        }
        if st.status.iter().all(|s| *s == Status::Done) {
            break;
        }
        // quiescent point: every unfinished thread sits between two operations
        let quiescent = st.status.iter().all(|s| matches!(s, Status::Done | Status::Parked(Point::Op(_))));
        if quiescent {
            drop(st);
            let snap = fs.verif_snapshot();
            let br = tree::integrity(&snap);
            if !br.is_empty() {
                let mut kinds: Vec<&str> = br.iter().map(|b| b.what).collect();
                kinds.sort();
                kinds.dedup();
                violations.push(Violation {
                    property: "C04".into(),
                    oracle: "integrity-at-quiescence".into(),
                    step: decisions as usize,
                    sig: format!("quiescent-integrity|{}", kinds.join("+")),
                    detail: format!("{:?}", br.iter().take(5).collect::<Vec<_>>()),
                });
                let mut st = sh.m.lock().unwrap();
                st.abort = true;
                for c in &sh.cv_thr {
                    c.notify_all();
                }
                drop(st);
                break;
            }
            st = sh.m.lock().unwrap();
        }
        let mut attemptable: Vec<usize> = vec![];
        for (t, s) in st.status.iter().enumerate() {
            if let Status::Parked(_) = s {
                match st.lock.blocked.iter().find(|b| b.0 == t) {
                    Some(b) if !b.2 => {},
                    _ => attemptable.push(t),
                }
            }
        }
        if attemptable.is_empty() {
            // every unfinished thread waits for a lock that can never be granted
            let waiting: Vec<String> = st
                .status
                .iter()
                .enumerate()
                .filter_map(|(t, s)| match s {
                    Status::Parked(Point::Acquire(w)) => Some(format!(
                        "t{} wants {} while holding {}",
                        t,
                        if *w { "write" } else { "read" },
                        if st.lock.holder_w == Some(t) {
                            "write"
                        } else if st.lock.holders_r.contains(&t) {
                            "read"
                        } else {
                            "nothing"
                        }
                    )),
                    _ => None,
                })
                .collect();
            let nested: Vec<&String> = waiting.iter().filter(|w| !w.ends_with("nothing")).collect();
            let what = if nested.iter().any(|w| w.contains("wants write")) {
                "nested-write"
            } else if nested.iter().any(|w| w.contains("holding write")) {
                "nested-under-write"
            } else {
                "nested-read-with-writer-queued"
            };
            violations.push(Violation {
                property: "C04".into(),
                oracle: "deadlock".into(),
                step: decisions as usize,
                sig: format!("deadlock|{}", what),
                detail: format!("no thread can proceed: {}", waiting.join("; ")),
            });
            st.abort = true;
            for c in &sh.cv_thr {
                c.notify_all();
            }
            drop(st);
            break;
        }
        decisions += 1;
        let pick = match chooser {
            Chooser::Random { rng, pct } => match pct {
                None => rng.below(attemptable.len()),
                Some(prio) => {
                    // PCT-style: highest priority attemptable thread, priorities change at a few
                    // seeded points
                    if rng.chance(1, 12) {
                        let t = rng.below(prio.len());
                        prio[t] = rng.next() % 1000;
                    }
                    let mut best = 0;
                    for (i, t) in attemptable.iter().enumerate() {
                        if prio[*t] > prio[attemptable[best]] {
                            best = i;
                        }
                    }
                    best
                },
            },
            Chooser::Replay { list, pos } => {
                let c = if *pos < list.len() { list[*pos] % attemptable.len() } else { 0 };
                *pos += 1;
                c
            },
        };
        schedule.push(pick);
        let t = attemptable[pick];
        if last.is_some() && last != Some(t) {
            switches += 1;
        }
        last = Some(t);
        let point = match st.status[t] {
            Status::Parked(p) => p,
            _ => unreachable!(),
        };
        st.seq += 1;
        let s = st.seq;
        match point {
            Point::Op(_) => {
                st.log.push((s, t, "start-op"));
                st.go[t] = true;
                st.status[t] = Status::Running;
                sh.cv_thr[t].notify_all();
            },
            Point::Acquire(w) => {
                let holds = st.lock.holder_w == Some(t) || st.lock.holders_r.contains(&t);
                if holds {
                    st.nested_seen += 1;
                }
                if st.lock.grantable(t, w) {
                    st.lock.blocked.retain(|b| b.0 != t);
                    if w {
                        st.lock.holder_w = Some(t);
                    } else {
                        st.lock.holders_r.push(t);
                    }
                    st.log.push((s, t, if w { "acquire-w" } else { "acquire-r" }));
                    st.go[t] = true;
                    st.status[t] = Status::Running;
                    sh.cv_thr[t].notify_all();
                } else {
                    st.log.push((s, t, if w { "queue-w" } else { "queue-r" }));
                    if let Some(b) = st.lock.blocked.iter_mut().find(|b| b.0 == t) {
                        b.2 = false;
                    } else {
                        st.lock.blocked.push((t, w, false));
                    }
                }
            },
        }
    }
    for j in joins {
        let _ = j.join();
    }
    let st = sh.m.lock().unwrap();
    let mut log = 0u64;
    for (s, t, w) in &st.log {
        log = hash_bytes(log, &s.to_le_bytes());
        log = hash_bytes(log, &[*t as u8]);
        log = hash_bytes(log, w.as_bytes());
    }
    let events = st.log.len() as u64;
    let nested = st.nested_seen;
    // reach probes from the event log: acquisitions that had to queue, operations that took more
    // than one guard, and those among them that another thread ran in between
    let mut queued = 0u64;
    let mut multi_guard = 0u64;
    let mut preempted_between = 0u64;
    {
        let mut open: Vec<Option<(u32, bool)>> = vec![None; n];
        let mut last_tid: Option<usize> = None;
        for (_, t, w) in &st.log {
            match *w {
                "queue-w" | "queue-r" => queued += 1,
                "invoke" => open[*t] = Some((0, false)),
                "acquire-w" | "acquire-r" => {
                    if let Some((cnt, foreign)) = open[*t].as_mut() {
                        *cnt += 1;
                        if *cnt >= 2 && last_tid.is_some() && last_tid != Some(*t) {
                            *foreign = true;
                        }
                    }
                },
                "return" => {
                    if let Some((cnt, foreign)) = open[*t].take() {
                        if cnt >= 2 {
                            multi_guard += 1;
                            if foreign {
                                preempted_between += 1;
                            }
                        }
                    }
                },
                _ => {},
            }
            if matches!(*w, "acquire-w" | "acquire-r" | "release-w" | "release-r" | "invoke" | "return") {
                last_tid = Some(*t);
            }
        }
    }
    drop(st);
    let mut recs = records.lock().unwrap().clone();
    recs.sort_by_key(|r| r.inv);
    for r in &recs {
        log = hash_bytes(log, format!("{:?}", r.out).as_bytes());
    }
    let final_snap = if violations.is_empty() { Some(fs.verif_snapshot()) } else { None };
    if let Some(s) = &final_snap {
        log = hash_bytes(log, &tree::tree_of(s).full_hash().to_le_bytes());
    }
    ConcOut { schedule, records: recs, violations, log_hash: log, events, switches, nested, final_snap, queued, multi_guard, preempted_between }
}

fn outcomes_agree(conc: &Outcome, seqo: &Outcome) -> bool {
    match (conc, seqo) {
        // the real code re-executed sequentially is the reference: also the kind of an error is
        // the one some sequential order gives
        (a, b) => a == b,
    }
}

/// Search for a sequential order of the recorded operations (program order + real-time precedence)
/// under which the real code, run sequentially, gives the same outcomes and the same final state
fn linearizable(case: &ConcCase, recs: &[OpRecord], final_snap: &rivia::verif::VerifSnapshot, budget: &mut u64) -> Result<bool, ()> {
    let n = recs.len();
    let mut order: Vec<usize> = vec![];
    let mut used = vec![false; n];
    fn run_prefix(case: &ConcCase, recs: &[OpRecord], order: &[usize]) -> (Memfs, bool) {
        let fs = Memfs::new();
        apply_setup(&fs, &case.setup, &case.knobs);
        let h = crate::hooks::install_seq(&case.knobs);
        let mut hs = Handles::default();
        let mut ok = true;
        for &i in order {
            let r = &recs[i];
            let out = exec::exec(&fs, &mut hs, &case.threads[r.tid][r.idx]);
            if !outcomes_agree(&r.out, &out) {
                ok = false;
                break;
            }
        }
        hs.clear();
        drop(h);
        crate::hooks::uninstall();
        (fs, ok)
    }
    fn dfs(
        case: &ConcCase, recs: &[OpRecord], final_snap: &rivia::verif::VerifSnapshot, order: &mut Vec<usize>, used: &mut Vec<bool>, budget: &mut u64,
    ) -> Result<bool, ()> {
        let n = recs.len();
        if *budget == 0 {
            return Err(());
        }
        if order.len() == n {
            *budget -= 1;
            let (fs, ok) = run_prefix(case, recs, order);
            return Ok(ok && fs.verif_snapshot() == *final_snap);
        }
        // candidates: unused ops all of whose predecessors (program order, real-time) are used
        for i in 0..n {
            if used[i] {
                continue;
            }
            let ready = (0..n).all(|j| {
                if used[j] || j == i {
                    return true;
                }
                let before = (recs[j].tid == recs[i].tid && recs[j].idx < recs[i].idx) || recs[j].ret < recs[i].inv;
                !before
            });
            if !ready {
                continue;
            }
            order.push(i);
            used[i] = true;
            // prune: the prefix must already agree
            *budget = budget.saturating_sub(1);
            let (_, ok) = run_prefix(case, recs, order);
            let res = if ok { dfs(case, recs, final_snap, order, used, budget) } else { Ok(false) };
            order.pop();
            used[i] = false;
            match res {
                Ok(true) => return Ok(true),
                Ok(false) => {},
                Err(()) => return Err(()),
            }
        }
        Ok(false)
    }
    dfs(case, recs, final_snap, &mut order, &mut used, budget)
}

/// All checks over one executed case
fn judge(case: &ConcCase, out: &ConcOut, stats: &mut Stats) -> Vec<Violation> {
    let mut v = judge_all(case, out, stats);
    if case.property == "C03" {
        // the C03 check's concurrent leg: only tree integrity at quiescence is its business
        v.retain(|x| x.oracle == "integrity-at-quiescence");
    }
    for x in v.iter_mut() {
        x.property = case.property.clone();
    }
    v
}

fn judge_all(case: &ConcCase, out: &ConcOut, stats: &mut Stats) -> Vec<Violation> {
    let mut v = out.violations.clone();
    for r in &out.records {
        if let Outcome::Panic(msg) = &r.out {
            let op = &case.threads[r.tid][r.idx];
            v.push(Violation {
                property: "C04".into(),
                oracle: "no-panic".into(),
                step: r.idx,
                sig: format!("panic|{}", op.name()),
                detail: format!("thread {} op {:?} panicked: {}", r.tid, op, msg),
            });
        }
    }
    if let Some(snap) = &out.final_snap {
        if snap.poisoned {
            v.push(Violation { property: "C04".into(), oracle: "poison".into(), step: 0, sig: "poisoned-lock".into(), detail: "lock poisoned at the end of the run".into() });
        }
        let br = tree::integrity(snap);
        if !br.is_empty() && !snap.poisoned {
            let mut kinds: Vec<&str> = br.iter().map(|b| b.what).collect();
            kinds.sort();
            kinds.dedup();
            v.push(Violation {
                property: "C04".into(),
                oracle: "integrity-at-quiescence".into(),
                step: 0,
                sig: format!("final-integrity|{}", kinds.join("+")),
                detail: format!("{:?}", br.iter().take(5).collect::<Vec<_>>()),
            });
        }
        if v.is_empty() {
            let total: usize = case.threads.iter().map(|t| t.len()).sum();
            let skipped = out.records.iter().filter(|r| r.out == Outcome::Skip).count();
            if out.records.len() == total && (case.linearizable || skipped == 0) {
                // append conservation (the headline special case, cheap and independent)
                let t = tree::tree_of(snap);
                for r in &out.records {
                    if let (Op::AppendAll { d, .. } | Op::HWrite { d, .. }, true) = (&case.threads[r.tid][r.idx], r.out.is_ok()) {
                        let only_appends = case.threads.iter().flatten().all(|o| {
                            matches!(
                                o,
                                Op::AppendAll { .. }
                                    | Op::ReadAll { .. }
                                    | Op::Exists { .. }
                                    | Op::OpenAppend { .. }
                                    | Op::HWrite { .. }
                                    | Op::HFlush { .. }
                                    | Op::HDrop { .. }
                                    | Op::HDropUnwind { .. }
                            )
                        });
                        // the count is only meaningful when this block of bytes cannot occur
                        // inside another block that was written (setup included)
                        let others_contain = case
                            .threads
                            .iter()
                            .flatten()
                            .chain(case.setup.iter())
                            .filter_map(|o| match o {
                                Op::AppendAll { d: x, .. } | Op::HWrite { d: x, .. } | Op::WriteAll { d: x, .. } => Some(x),
                                _ => None,
                            })
                            .filter(|x| !std::ptr::eq(*x, d))
                            .any(|x| !d.0.is_empty() && x.0.len() >= d.0.len() && x.0.windows(d.0.len()).any(|w| w == &d.0[..]));
                        if only_appends && !d.0.is_empty() && !others_contain {
                            let total_hits: usize = t
                                .nodes
                                .values()
                                .filter_map(|n| n.data.as_ref())
                                .map(|b| b.0.windows(d.0.len()).filter(|w| *w == &d.0[..]).count())
                                .sum();
                            stats.bump("append_conservation_checked");
                            if total_hits != 1 {
                                v.push(Violation {
                                    property: "C04".into(),
                                    oracle: "append-conservation".into(),
                                    step: r.idx,
                                    sig: "lost-or-duplicated-append".into(),
                                    detail: format!("append {:?} by thread {} present {} times in the final content", d, r.tid, total_hits),
                                });
                                return v;
                            }
                        }
                    }
                }
                if !case.linearizable {
                    return v;
                }
                let mut budget = 6000u64;
                match linearizable(case, &out.records, snap, &mut budget) {
                    Ok(true) => stats.bump("linearizable_histories"),
                    Ok(false) => {
                        let mut names: Vec<&str> = case.threads.iter().flatten().map(|o| o.name()).collect();
                        names.sort();
                        v.push(Violation {
                            property: "C04".into(),
                            oracle: "linearizability".into(),
                            step: 0,
                            sig: format!("nonlinearizable|{}", names.join(",")),
                            detail: format!(
                                "no sequential order explains outcomes {:?}",
                                out.records.iter().map(|r| (r.tid, r.idx, r.inv, r.ret, r.out.class())).collect::<Vec<_>>()
                            ),
                        });
                    },
                    Err(()) => stats.bump("linearizability_budget_exhausted"),
                }
            }
        }
    }
    v
}

pub const SINGLE_STEP: &[(&str, u32)] = &[
    ("mkdir_p", 8),
    ("mkdir_m", 3),
    ("mkfile", 6),
    ("remove", 6),
    ("remove_all", 4),
    ("move_p", 6),
    ("copy", 5),
    ("symlink", 4),
    ("set_cwd", 3),
    ("append_all", 10),
    ("write_all", 8),
    ("read_all", 6),
    ("read_lines", 1),
    ("exists", 3),
    ("is_dir", 2),
    ("is_file", 2),
    ("mode", 1),
    ("readlink", 4),
    ("readlink_abs", 2),
    ("is_symlink", 2),
    ("paths", 3),
    ("dirs", 2),
    ("files", 2),
    ("all_paths", 3),
    ("all_files", 1),
    ("cwd", 1),
];

pub const SAFETY_ONLY: &[(&str, u32)] = &[
    ("chmod", 4),
    ("chmod_b", 4),
    ("chown", 3),
    ("chown_b", 2),
    ("mkfile_m", 4),
    ("entries", 4),
    ("open_read", 2),
    ("open_write", 3),
    ("open_append", 3),
    ("h_write", 6),
    ("h_flush", 3),
    ("h_drop", 3),
    ("h_drop_unwind", 1),
    ("h_read_to_end", 1),
];

fn profile(linz: bool) -> Profile {
    Profile {
        name: if linz { "conc-single-step" } else { "conc-safety-only" },
        weights: if linz { SINGLE_STEP.to_vec() } else { crate::gen::cat(&[SINGLE_STEP, SAFETY_ONLY]) },
        spelling: 1,
        hostile: 0,
        swarm_drop: 35,
        max_len: 6,
        big_data: false,
    }
}

fn generate(seed: u64, idx: u64, rng: &mut Rng) -> ConcCase {
    let linz = !rng.chance(1, 4);
    let knobs = pick_knobs(rng);
    let mut gen = Gen::new(profile(linz), format!("{}", idx), rng);
    // few names and shallow trees force conflicts
    gen.names.truncate(rng.range(2, 4).min(gen.names.len()));
    gen.max_depth = rng.range(1, 2);
    let env = crate::gen::make_env(&gen.names, rng);
    // the setup prefix is generated against the reference model (state-aware arguments)
    let mut m = Model::new(env.clone());
    let mut setup = vec![];
    let ns = rng.below(7);
    let setup_kinds = ["mkdir_p", "mkdir_p", "mkfile", "write_all", "write_all", "symlink", "append_all"];
    let scratch = Memfs::new();
    let mut hs = Handles::default();
    seq::set_env(&env);
    for _ in 0..ns {
        let k = *rng.pick(&setup_kinds);
        let op = gen.build(k, &m, rng);
        let out = exec::exec(&scratch, &mut hs, &op);
        let pre = m.t.clone();
        let snap = scratch.verif_snapshot();
        if tree::integrity(&snap).is_empty() {
            m.t = tree::tree_of(&snap);
        }
        m.after(&op, &out, &pre);
        setup.push(op);
    }
    let family = rng.weighted(&[53, 14, 14, 10, 8, 1]);
    let mut linz = linz;
    let mut setup = setup;
    let nthreads = if linz { rng.range(2, 3) } else { rng.range(2, 4) };
    let mut threads = vec![];
    match family {
        0 => {
            for _ in 0..nthreads {
                let nops = if linz { rng.range(1, 3) } else { rng.range(1, 6) };
                let mut ops = vec![];
                for _ in 0..nops {
                    ops.push(gen.next_op(&m, rng));
                }
                threads.push(ops);
            }
        },
        1 => {
            // append storm: the statement's headline case, all threads append to one or two files
            linz = true;
            let files = [format!("/{}", gen.names[0]), format!("/{}", gen.names[1 % gen.names.len()])];
            for _ in 0..rng.range(2, 3) {
                let mut ops = vec![];
                for _ in 0..rng.range(1, 3) {
                    let nf = if rng.chance(1, 3) { 2 } else { 1 };
                    let f = files[rng.below(nf)].clone();
                    if rng.chance(1, 6) {
                        ops.push(Op::ReadAll { p: f });
                    } else {
                        gen.step += 1;
                        let mut d = gen.data(rng);
                        if d.0.is_empty() {
                            d = Bytes(format!("<e{}.{}>", idx, gen.step).into_bytes());
                        }
                        ops.push(Op::AppendAll { p: f, d });
                    }
                }
                threads.push(ops);
            }
        },
        5 => {
            // scale: a call that works through hundreds of entries, or hundreds of kilobytes, must
            // be as atomic as on a handful (cut-offs, slices and "fairness" yields are exactly
            // where a guard gets released in the middle)
            linz = true;
            let which = rng.below(3);
            if which == 2 {
                // a whole-file read against a whole-file replacement of another length: the read
                // returns one of the contents, never a mixture or a length from one and bytes
                // from the other (length probe + copy under two guards)
                let a = *rng.pick(&[17_000usize, 40_000, 70_000]);
                let b = *rng.pick(&[9_000usize, 33_000, 60_000, 140_000]);
                let mut da = format!("<a{}>", idx).into_bytes();
                da.resize(a, b'A');
                let mut db = format!("<b{}>", idx).into_bytes();
                db.resize(b, b'B');
                setup = vec![Op::WriteAll { p: "/f".into(), d: Bytes(da) }];
                threads.push(vec![Op::WriteAll { p: "/f".into(), d: Bytes(db) }]);
                for _ in 0..2 {
                    threads.push(vec![if rng.chance(3, 4) { Op::ReadAll { p: "/f".into() } } else { Op::ReadLines { p: "/f".into() } }; rng.range(1, 2) as usize]);
                }
            } else if which == 0 {
                let n = *rng.pick(&[257usize, 300, 520]);
                setup = vec![Op::MkdirP { p: "/big/sub".into() }];
                for i in 0..n {
                    setup.push(Op::Mkfile { p: format!("/big/{}f{}", if i % 5 == 0 { "sub/" } else { "" }, i) });
                }
                threads.push(vec![if rng.chance(3, 4) { Op::RemoveAll { p: "/big".into() } } else { Op::MoveP { s: "/big".into(), d: "/moved".into() } }]);
                for _ in 0..2 {
                    let mut ops = vec![];
                    for _ in 0..2 {
                        let i = rng.below(n);
                        ops.push(match rng.below(5) {
                            0 => Op::Exists { p: format!("/big/{}f{}", if i % 5 == 0 { "sub/" } else { "" }, i) },
                            1 => Op::IsDir { p: "/big".into() },
                            2 => Op::AllFiles { p: "/big".into() },
                            3 => Op::Exists { p: format!("/big/{}f{}", if (n - 1) % 5 == 0 { "sub/" } else { "" }, n - 1) },
                            _ => Op::IsDir { p: "/big/sub".into() },
                        });
                    }
                    threads.push(ops);
                }
            } else {
                let size = *rng.pick(&[70_000usize, 300_000, 600_000]);
                setup = vec![Op::WriteAll { p: "/f".into(), d: Bytes(b"<x>".to_vec()) }];
                let mut block = format!("<blk{}>", idx).into_bytes();
                block.resize(size, b'A');
                threads.push(vec![Op::OpenAppend { h: 0, p: "/f".into() }, Op::HWrite { h: 0, d: Bytes(block) }, Op::HFlush { h: 0 }, Op::HDrop { h: 0 }]);
                for t in 0..2 {
                    threads.push(vec![Op::AppendAll { p: "/f".into(), d: Bytes(format!("<b{}.{}>", idx, t).into_bytes()) }]);
                }
            }
        },
        4 => {
            // query vs. replacement: one path changes kind (link, file, directory, nothing) under
            // threads that ask about it; every answer must be the one some single state gives
            linz = true;
            setup = vec![
                Op::MkdirP { p: "/d".into() },
                Op::WriteAll { p: "/f".into(), d: Bytes(b"F".to_vec()) },
                Op::WriteAll { p: "/g".into(), d: Bytes(b"G".to_vec()) },
            ];
            setup.push(match rng.below(4) {
                0 => Op::Symlink { l: "/p".into(), t: "/f".into() },
                1 => Op::Symlink { l: "/p".into(), t: "/d".into() },
                2 => Op::WriteAll { p: "/p".into(), d: Bytes(b"P".to_vec()) },
                _ => Op::MkdirP { p: "/p".into() },
            });
            for _ in 0..rng.range(1, 2) {
                let mut ops = vec![];
                for _ in 0..rng.range(1, 2) {
                    ops.push(match rng.below(16) {
                        14 | 15 => Op::Owner { p: "/p".into() },
                        10 | 11 => Op::Paths { p: "/p".into() },
                        12 => Op::AllPaths { p: "/p".into() },
                        13 => Op::Dirs { p: "/p".into() },
                        0 | 1 | 2 => Op::Readlink { p: "/p".into() },
                        3 => Op::ReadlinkAbs { p: "/p".into() },
                        4 => Op::IsSymlink { p: "/p".into() },
                        5 => Op::ReadAll { p: "/p".into() },
                        6 => Op::IsDir { p: "/p".into() },
                        7 => Op::IsFile { p: "/p".into() },
                        8 => Op::Paths { p: "/".into() },
                        _ => Op::Exists { p: "/p".into() },
                    });
                }
                threads.push(ops);
            }
            let mut ops = vec![];
            match rng.below(6) {
                5 => {
                    // (chown is one call under one guard in the pinned code: an owner() that sees
                    // half of it has no sequential explanation)
                    ops.push(Op::Chown { p: "/p".into(), uid: 5, gid: 5 });
                    ops.push(Op::Chown { p: "/p".into(), uid: 6, gid: 6 });
                },
                0 => ops.push(Op::MoveP { s: "/g".into(), d: "/p".into() }),
                1 => {
                    ops.push(Op::Remove { p: "/p".into() });
                    ops.push(Op::Mkfile { p: "/p".into() });
                },
                2 => {
                    ops.push(Op::Remove { p: "/p".into() });
                    ops.push(Op::Symlink { l: "/p".into(), t: "/g".into() });
                },
                3 => {
                    ops.push(Op::RemoveAll { p: "/p".into() });
                    ops.push(Op::MkdirP { p: "/p".into() });
                },
                _ => ops.push(Op::Copy { s: "/g".into(), d: "/p".into() }),
            }
            threads.push(ops);
        },
        3 => {
            // cwd race: relative spellings on some threads while another moves the working directory.
            // Each call must resolve all of its paths against one cwd (the old or the new one).
            linz = true;
            setup = vec![
                Op::MkdirP { p: "/d0".into() },
                Op::MkdirP { p: "/d1".into() },
                Op::WriteAll { p: "/d0/x".into(), d: Bytes(b"A0".to_vec()) },
                Op::WriteAll { p: "/d1/x".into(), d: Bytes(b"B1".to_vec()) },
            ];
            if rng.chance(1, 2) {
                setup.push(Op::WriteAll { p: "/x".into(), d: Bytes(b"R".to_vec()) });
            }
            if rng.chance(2, 3) {
                setup.push(Op::SetCwd { p: "/d0".into() });
            }
            let cwd_targets = ["/d1", "/d0", "/", "../d1", "d1", ".."];
            let movers = rng.range(1, 2);
            for _ in 0..movers {
                let mut ops = vec![];
                for _ in 0..rng.range(1, 2) {
                    ops.push(Op::SetCwd { p: rng.pick(&cwd_targets).to_string() });
                }
                threads.push(ops);
            }
            for _ in 0..(3 - movers).max(1) {
                let mut ops = vec![];
                for _ in 0..rng.range(1, 2) {
                    gen.step += 1;
                    let d = Bytes(format!("<c{}.{}>", idx, gen.step).into_bytes());
                    let a = rng.pick(&["x", "./x", "../d1/x", "../d0/x", "x"]).to_string();
                    let b = rng.pick(&["y", "./y", "../y", "sub/y", "y"]).to_string();
                    ops.push(match rng.below(12) {
                        0 | 1 | 2 => Op::MoveP { s: a, d: b },
                        3 | 4 => Op::Copy { s: a, d: b },
                        5 => Op::Symlink { l: b, t: a },
                        6 => Op::WriteAll { p: a, d },
                        7 => Op::AppendAll { p: a, d },
                        8 => Op::MkdirP { p: b },
                        9 => Op::Remove { p: a },
                        10 => Op::ReadAll { p: a },
                        _ => Op::Abs { p: b },
                    });
                }
                threads.push(ops);
            }
        },
        _ => {
            // append handles of several threads on one file, interleaved with append_all
            linz = false;
            let f = format!("/{}", gen.names[0]);
            for _ in 0..rng.range(2, 3) {
                let mut ops = vec![Op::OpenAppend { h: 0, p: f.clone() }];
                for _ in 0..rng.range(1, 3) {
                    gen.step += 1;
                    let d = Bytes(format!("<h{}.{}>", idx, gen.step).into_bytes());
                    match rng.below(4) {
                        0 => ops.push(Op::AppendAll { p: f.clone(), d }),
                        _ => ops.push(Op::HWrite { h: 0, d }),
                    }
                    if rng.chance(1, 3) {
                        ops.push(Op::HFlush { h: 0 });
                    }
                }
                if rng.chance(2, 3) {
                    ops.push(if rng.chance(1, 5) { Op::HDropUnwind { h: 0 } } else { Op::HDrop { h: 0 } });
                }
                threads.push(ops);
            }
        },
    }
    ConcCase {
        format: 1,
        property: "C04".into(),
        world: "CONC".into(),
        seed,
        run: idx,
        knobs,
        env,
        setup,
        threads,
        schedule: vec![],
        linearizable: linz,
        expect: None,
        log_hash: String::new(),
        what: String::new(),
    }
}

fn run_case(case: &ConcCase, stats: &mut Stats) -> (Vec<Violation>, ConcOut) {
    let mut ch = Chooser::Replay { list: &case.schedule, pos: 0 };
    let out = execute(case, &mut ch);
    let v = judge(case, &out, stats);
    (v, out)
}

fn oracle_of(sig: &str) -> &str {
    sig.split('|').next().unwrap_or(sig)
}

fn minimise(mut case: ConcCase, sig: &str) -> ConcCase {
    let target = oracle_of(sig).to_string();
    let still = |c: &ConcCase| -> Option<(Violation, Vec<usize>)> {
        let mut st = Stats::default();
        let (v, out) = run_case(c, &mut st);
        v.into_iter().find(|x| oracle_of(&x.sig) == target).map(|x| (x, out.schedule))
    };
    if still(&case).is_none() {
        return case;
    }
    let mut budget = 150;
    // drop setup operations
    let mut i = 0;
    while i < case.setup.len() && budget > 0 {
        let mut c2 = case.clone();
        c2.setup.remove(i);
        budget -= 1;
        if still(&c2).is_some() {
            case = c2;
        } else {
            i += 1;
        }
    }
    // drop thread operations (and with them empty threads)
    let mut t = 0;
    while t < case.threads.len() && budget > 0 {
        let mut i = 0;
        while i < case.threads[t].len() && budget > 0 {
            let mut c2 = case.clone();
            c2.threads[t].remove(i);
            if c2.threads[t].is_empty() {
                c2.threads.remove(t);
            }
            budget -= 1;
            if c2.threads.len() >= 1 && still(&c2).is_some() {
                case = c2;
                if t >= case.threads.len() {
                    break;
                }
            } else {
                i += 1;
            }
        }
        t += 1;
    }
    // try the simplest schedules: all zeros, then truncations
    for cut in [0usize, case.schedule.len() / 2] {
        let mut c2 = case.clone();
        c2.schedule.truncate(cut);
        if still(&c2).is_some() {
            case = c2;
            break;
        }
    }
    let mut c2 = case.clone();
    c2.knobs = Knobs::default();
    if still(&c2).is_some() {
        case = c2;
    }
    if let Some((v, sched)) = still(&case) {
        case.schedule = sched;
        case.expect = Some(seq::ExpectSig { sig: v.sig.clone(), step: v.step });
        case.what = v.detail;
        let mut st = Stats::default();
        let (_, out) = run_case(&case, &mut st);
        case.log_hash = format!("{:016x}", out.log_hash);
    }
    case
}

pub fn run_index(id: &str, tier: &str, seed: u64, idx: u64, stats: &mut Stats, known: &dyn Fn(&Violation) -> bool) -> Option<Finding> {
    // one program, several seeded schedules
    let prog_idx = idx / 4;
    let rs = mix(&[seed, hash_str(id), hash_str(tier), prog_idx]);
    let mut prng = Rng::new(rs);
    let mut case = generate(seed, idx, &mut prng);
    case.property = id.to_string();
    let mut srng = Rng::new(mix(&[rs, idx % 4, 0x5c4ed]));
    let pct = if srng.chance(1, 2) { Some((0..case.threads.len()).map(|_| srng.next() % 1000).collect()) } else { None };
    stats.runs += 1;
    let out = {
        let mut ch = Chooser::Random { rng: &mut srng, pct };
        execute(&case, &mut ch)
    };
    case.schedule = out.schedule.clone();
    let v = judge(&case, &out, stats);
    stats.steps += out.records.len() as u64;
    stats.sched_events += out.events;
    stats.add("context_switches", out.switches);
    stats.add("nested_acquisitions_seen", out.nested);
    if out.nested > 0 {
        stats.bump("probe.nested_acquisition_seen");
    }
    stats.add("probe.acquisition_found_the_lock_held__only_possible_with_nested_acquisition", out.queued);
    stats.add("probe.operation_took_two_or_more_guards", out.multi_guard);
    stats.add("probe.other_thread_ran_between_two_guards_of_one_operation", out.preempted_between);
    stats.add("fault.F5_preemptions_at_guard_or_op_boundary", out.switches);
    if out.records.iter().any(|r| matches!(r.out, Outcome::Panic(_))) {
        stats.bump("fault.F6_client_thread_panicked");
    }
    let prog_hash = hash_str(&format!("{:?}{:?}", case.setup, case.threads));
    let sched_hash = hash_str(&format!("{:?}", case.schedule));
    stats.distinct_cases.insert(out.log_hash);
    let pair = format!("{:016x}|{:016x}", prog_hash, sched_hash);
    if out.switches > 0 {
        stats.triples.insert(pair);
    } else {
        stats.trivial_triples.insert(pair);
    }
    stats.shapes.insert(prog_hash);
    if case.linearizable {
        stats.bump("programs_checked_for_linearizability");
    } else {
        stats.bump("programs_safety_only");
    }
    // preemption between the two guards of one operation
    for o in case.threads.iter().flatten() {
        stats.bump(&format!("op.{}", o.name()));
    }
    if stats.samples.len() < 3 && case.threads.iter().map(|t| t.len()).sum::<usize>() <= 5 {
        stats.samples.push(json!({"run": idx, "setup": case.setup, "threads": case.threads, "schedule": case.schedule, "outcomes": out.records.iter().map(|r| (r.tid, r.idx, r.out.class())).collect::<Vec<_>>()}));
    }
    let mut first = None;
    for x in v {
        if known(&x) {
            *stats.known_hits.entry(x.sig.clone()).or_insert(0) += 1;
        } else if first.is_none() {
            first = Some(x);
        }
    }
    let x = first?;
    let case = minimise(case, &x.sig);
    let mut x = x;
    if let Some(e) = &case.expect {
        x.sig = e.sig.clone();
        x.step = e.step;
    }
    if known(&x) {
        *stats.known_hits.entry(x.sig.clone()).or_insert(0) += 1;
        return None;
    }
    x.detail = format!("{} | program: setup {:?} threads {:?} schedule {:?}", case.what, case.setup, case.threads, case.schedule);
    Some(Finding { violation: x, case: serde_json::to_value(&case).unwrap() })
}

pub fn replay(case: &serde_json::Value) -> Result<(Option<Violation>, String), String> {
    let c: ConcCase = serde_json::from_value(case.clone()).map_err(|e| e.to_string())?;
    let mut st = Stats::default();
    let (v, out) = run_case(&c, &mut st);
    Ok((v.into_iter().next(), format!("{:016x}", out.log_hash)))
}
