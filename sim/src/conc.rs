//! (world under construction)
use crate::{report::{Stats, Violation}, supervisor::Finding};

pub fn run_index(_id: &str, _tier: &str, _seed: u64, _idx: u64, _stats: &mut Stats, _known: &dyn Fn(&Violation) -> bool) -> Option<Finding> {
    None
}

pub fn replay(_case: &serde_json::Value) -> Result<(Option<Violation>, String), String> {
    Err("world not implemented".into())
}
