//! DIFF world: the real Stdfs on a private tmpfs sandbox and the real Memfs are fed the same
//! calls. Pre-states are materialised on disk with std::fs only (and in Memfs through its API),
//! an independent std::fs observer reads the sandbox back, and every call must give the same
//! success-or-failure, the same returned value and the same tree on both sides (C02).
//! Operations and trees live in a virtual namespace rooted at "/" that is mapped onto the sandbox
//! directory at execution time, so recorded cases do not depend on where the sandbox is.
use std::os::unix::fs::PermissionsExt;

use rivia::prelude::*;
use serde::{Deserialize, Serialize};
use serde_json::json;

use crate::{
    exec::{self, Handles},
    gen::{cat, Gen, Profile, QUERIES},
    hooks::{self, Knobs},
    model::{Expect, Model, Next, K},
    ops::*,
    prng::{hash_bytes, hash_str, mix, Rng},
    refpath::Env,
    report::{Stats, Violation},
    seq,
    supervisor::{pick_knobs, Finding},
    tree::{self, is_under, Cmp, Kind, Node, Tree},
};

#[derive(Clone, Debug, Serialize, Deserialize)]
pub struct DiffCase {
    pub format: u32,
    pub property: String,
    pub world: String,
    pub seed: u64,
    pub run: u64,
    pub knobs: Knobs,
    /// virtual environment (HOME etc. as virtual paths)
    pub env: Env,
    /// virtual pre-state tree, materialised on disk with std::fs before the calls
    pub tree: Tree,
    pub ops: Vec<Op>,
    pub expect: Option<seq::ExpectSig>,
    pub log_hash: String,
    #[serde(default)]
    pub what: String,
}

pub struct Sandbox {
    pub base: String,
    pub root: String,
}

impl Sandbox {
    pub fn new() -> Sandbox {
        let shm = if std::path::Path::new("/dev/shm").is_dir() { "/dev/shm".to_string() } else { std::env::temp_dir().to_string_lossy().into_owned() };
        let base = format!("{}/rvsim-{}", shm, std::process::id());
        // padding: a relative link that is moved may climb a few levels above the sandbox root on
        // disk; whatever it reaches must still be inside the private directory that is removed
        Sandbox { root: format!("{}/_/_/_/_/_/_/_/_/sb", base), base }
    }
    fn force_writable(p: &std::path::Path) {
        if let Ok(meta) = std::fs::symlink_metadata(p) {
            if meta.is_dir() {
                let _ = std::fs::set_permissions(p, std::fs::Permissions::from_mode(0o700));
                if let Ok(rd) = std::fs::read_dir(p) {
                    for e in rd.flatten() {
                        Sandbox::force_writable(&e.path());
                    }
                }
            }
        }
    }
    pub fn fresh(&self) -> std::io::Result<()> {
        let _ = std::env::set_current_dir("/");
        if std::path::Path::new(&self.base).exists() {
            Sandbox::force_writable(std::path::Path::new(&self.base));
            std::fs::remove_dir_all(&self.base)?;
        }
        std::fs::create_dir_all(&self.root)?;
        std::fs::set_permissions(&self.root, std::fs::Permissions::from_mode(0o755))?;
        Ok(())
    }
    pub fn cleanup(&self) {
        let _ = std::env::set_current_dir("/");
        Sandbox::force_writable(std::path::Path::new(&self.base));
        let _ = std::fs::remove_dir_all(&self.base);
    }
    /// virtual absolute path -> real path
    pub fn real(&self, v: &str) -> String {
        if v == "/" {
            self.root.clone()
        } else {
            format!("{}{}", self.root, v)
        }
    }
    /// real path -> virtual path (None when outside the sandbox)
    pub fn virt(&self, r: &str) -> Option<String> {
        if r == self.root {
            Some("/".into())
        } else if is_under(r, &self.root) {
            Some(r[self.root.len()..].to_string())
        } else {
            None
        }
    }
    fn map_arg(&self, a: &str) -> String {
        if a.starts_with('/') {
            // keep unclean spellings: only the prefix is added
            format!("{}{}", self.root, a)
        } else if let Some(i) = a.find("://") {
            let (proto, rest) = a.split_at(i + 3);
            if rest.starts_with('/') {
                format!("{}{}{}", proto, self.root, rest)
            } else {
                a.to_string()
            }
        } else {
            a.to_string()
        }
    }
    pub fn map_op(&self, op: &Op) -> Op {
        let mut c = op.clone();
        for p in c.paths_mut() {
            *p = self.map_arg(p);
        }
        c
    }
    pub fn map_env(&self, env: &Env) -> Env {
        env.iter().map(|(k, v)| (k.clone(), if v.starts_with('/') { self.real(v) } else { v.clone() })).collect()
    }
    /// map a real tree (disk observer / Memfs snapshot) to virtual paths, dropping anything outside
    pub fn virt_tree(&self, t: &Tree) -> Tree {
        let mut nodes = std::collections::BTreeMap::new();
        for (k, n) in &t.nodes {
            if let Some(v) = self.virt(k) {
                let mut n = n.clone();
                if let Some(tg) = &n.target {
                    n.target = Some(self.virt(tg).unwrap_or_else(|| format!("<outside>{}", tg)));
                }
                if let Some(r) = &n.rel {
                    // (a link to its own directory stores the absolute path as relative form)
                    if r.starts_with('/') {
                        n.rel = Some(self.virt(r).unwrap_or_else(|| format!("<outside>{}", r)));
                    }
                }
                nodes.insert(v, n);
            }
        }
        Tree { cwd: self.virt(&t.cwd).unwrap_or_else(|| t.cwd.clone()), nodes }
    }
}

/// DIFF legs of the properties that say "on both backends": a workload made of the property's own
/// operations (plus what is needed to build states) and the list of operations whose agreement is
/// that property's business
pub fn leg(id: &str) -> Option<(Vec<(&'static str, u32)>, Vec<&'static str>)> {
    let build: &[(&'static str, u32)] = &[("mkdir_p", 6), ("mkfile", 4), ("write_all", 5), ("symlink", 4)];
    match id {
        "C06" => Some((
            cat(&[
                build,
                &[("write_all", 8), ("append_all", 10), ("append_line", 4), ("append_lines", 4), ("write_lines", 4), ("read_all", 10), ("read_lines", 5), ("copy", 4), ("move_p", 4), ("remove", 2)],
                &[("open_append", 5), ("open_write", 3), ("h_write", 10), ("h_flush", 2), ("h_drop", 3), ("h_drop_unwind", 1)],
            ]),
            vec!["write_all", "append_all", "append_line", "append_lines", "write_lines", "read_all", "read_lines", "append", "write", "h_write", "h_flush", "h_drop", "h_drop_unwind"],
        )),
        "C07" => Some((
            cat(&[
                build,
                &[("write_all", 8), ("append_all", 4), ("read_all", 6)],
                &[("open_read", 8), ("h_read", 14), ("h_seek", 14), ("h_read_to_end", 4), ("open_append", 4), ("open_write", 4), ("h_write", 10), ("h_flush", 3), ("h_drop", 4), ("h_drop_unwind", 1)],
            ]),
            vec!["read", "append", "write", "h_read", "h_seek", "h_read_to_end", "h_write", "h_flush", "h_drop", "h_drop_unwind"],
        )),
        "C08" => Some((
            cat(&[build, &[("entries", 25), ("paths", 4), ("dirs", 4), ("files", 4), ("all_paths", 4), ("all_dirs", 4), ("all_files", 4), ("remove", 2), ("move_p", 2)]]),
            vec!["entries", "paths", "dirs", "files", "all_paths", "all_dirs", "all_files"],
        )),
        "C09" => Some((cat(&[build, &[("mkdir_m", 3), ("mkfile_m", 2), ("chmod", 2), ("copy", 12), ("copy_b", 12), ("move_p", 14), ("read_all", 3)]]), vec!["copy", "copy_b", "move_p"])),
        "C10" => Some((
            cat(&[build, &[("symlink", 12), ("readlink", 8), ("readlink_abs", 8), ("is_symlink", 4), ("is_file", 4), ("is_dir", 4), ("is_symlink_dir", 4), ("is_symlink_file", 4), ("entry", 5), ("remove", 5), ("chmod", 3)]]),
            vec!["symlink", "readlink", "readlink_abs", "is_symlink", "is_file", "is_dir", "is_symlink_dir", "is_symlink_file", "entry", "remove", "chmod"],
        )),
        "C11" => Some((
            cat(&[build, &[("mkdir_m", 4), ("mkfile_m", 4), ("chmod", 10), ("chmod_b", 22), ("mode", 6), ("is_exec", 4), ("is_readonly", 4)]]),
            vec!["chmod", "chmod_b", "mode", "is_exec", "is_readonly", "mkdir_m", "mkfile_m"],
        )),
        "C20" => Some((cat(&[build, &[("macro", 40), ("remove", 2), ("move_p", 2)]]), vec!["macro"])),
        _ => None,
    }
}

fn profile_for(id: &str) -> Profile {
    let mut p = profile();
    if let Some((w, _)) = leg(id) {
        p.weights = w;
        p.name = "backend-differential-leg";
    }
    p
}

fn profile() -> Profile {
    Profile {
        name: "backend-differential",
        weights: cat(&[
            &[
                ("mkdir_p", 8),
                ("mkdir_m", 4),
                ("mkfile", 6),
                ("mkfile_m", 3),
                ("write_all", 7),
                ("append_all", 5),
                ("append_line", 2),
                ("append_lines", 2),
                ("write_lines", 2),
                ("remove", 7),
                ("remove_all", 5),
                ("move_p", 8),
                ("copy", 7),
                ("copy_b", 4),
                ("symlink", 7),
                ("set_cwd", 3),
                ("chmod", 3),
                ("chmod_b", 4),
            ],
            QUERIES,
            // handles, under the rules of `handle_ok`
            &[("open_read", 1), ("open_write", 2), ("open_append", 2), ("h_write", 4), ("h_read", 2), ("h_seek", 2), ("h_read_to_end", 1), ("h_drop", 3), ("h_drop_unwind", 1)],
        ]),
        spelling: 1,
        hostile: 0,
        swarm_drop: 20,
        max_len: 10,
        big_data: false,
    }
}

/// modes in the DIFF world keep owner access so that the verdict does not depend on the uid
fn safe_mode(m: u32, dir: bool) -> u32 {
    // (of the three special bits only the sticky bit of a directory has no side effect for an
    // unprivileged owner: set-id bits are cleared by the kernel on write, a set-gid directory
    // hands its bit on to what is created in it)
    if dir {
        (m & 0o1777) | 0o700
    } else {
        (m & 0o777) | 0o600
    }
}

fn sanitize(op: &mut Op) {
    match op {
        Op::MkdirM { mode, .. } => *mode = safe_mode(*mode, true),
        Op::MkfileM { mode, .. } => *mode = safe_mode(*mode, false),
        Op::Chmod { mode, .. } => *mode = safe_mode(*mode, true),
        Op::ChmodB { calls, .. } => {
            for c in calls.iter_mut() {
                match c {
                    ChmodCall::All(m) | ChmodCall::Dirs(m) => *m = safe_mode(*m, true),
                    ChmodCall::Files(m) => *m = safe_mode(*m, false),
                    ChmodCall::Sym(s) => {
                        // no expression may take owner access away
                        if s.contains('-') || s.contains('=') {
                            *s = s.replace('-', "+").replace('=', "+");
                        }
                    },
                    ChmodCall::Readonly => *c = ChmodCall::Sym("f:a+r".into()),
                    _ => {},
                }
            }
        },
        Op::Macro { name, mode: Some(m), .. } if name == "mkdir_m" => *m = (*m & 0o170000) | safe_mode(*m, true),
        // an OS file position is an off_t: positions beyond i64::MAX exist for a Cursor and for a
        // Memfs handle but for no real file, so the comparison keeps to representable positions
        Op::HSeek { w, off, .. } => {
            let lim = 1i64 << 40;
            *off = match w {
                crate::ops::Whence::Start => (*off % lim).abs(),
                _ => *off % lim,
            };
        },
        Op::CopyB { calls, .. } => {
            for c in calls.iter_mut() {
                match c {
                    CopyCall::ChmodAll(m) | CopyCall::ChmodDirs(m) => *m = safe_mode(*m, true),
                    CopyCall::ChmodFiles(m) => *m = safe_mode(*m, false),
                    _ => {},
                }
            }
        },
        _ => {},
    }
}

/// Every link resolves to an existing non-link entry (the stated domain of C02)
fn in_domain(m: &Model) -> bool {
    in_domain_opt(m, false)
}

/// `dangling_ok`: links whose target is missing are tolerated (C10 speaks about targets "existing
/// or not"); everything else about the domain stays
fn in_domain_opt(m: &Model, dangling_ok: bool) -> bool {
    m.t.nodes.values().all(|n| match (&n.kind, &n.target) {
        (Kind::Link, Some(t)) if dangling_ok && m.k(t) == K::Missing => true,
        // ... and records the kind its target has now: a disk has no "kind at creation", so a
        // state in which Memfs remembers a different kind has no counterpart on disk
        (Kind::Link, Some(t)) => matches!(m.k(t), K::Dir | K::File) && n.link_dir == (m.k(t) == K::Dir),
        _ => true,
    }) && m.t.nodes.iter().all(|(k, n)| match (&n.kind, &n.target, &n.rel) {
        (Kind::Link, Some(t), r) if dangling_ok && m.k(t) == K::Missing && !m.through_link(t) => {
            // (a text that climbs above the virtual root leaves the sandbox, dangling or not)
            let dir = tree::parent(k).unwrap_or_else(|| "/".into());
            let mut level = tree::depth(&dir) as i64;
            let mut escapes = false;
            for c in r.as_deref().unwrap_or("").split('/') {
                match c {
                    ".." => level -= 1,
                    "" | "." => {},
                    _ => level += 1,
                }
                if level < 0 {
                    escapes = true;
                }
            }
            !escapes || r.as_deref().map(|x| x.starts_with('/')).unwrap_or(false)
        },
        // ... and its stored relative text still leads from where the link is now to that target:
        // a moved link keeps its text on disk but its absolute target in Memfs
        (Kind::Link, Some(t), Some(r)) => {
            let dir = tree::parent(k).unwrap_or_else(|| "/".into());
            if r.starts_with('/') {
                // absolute text: fine where it is, but the relative form an entry reports is
                // recomputed from the location on disk and remembered from creation in Memfs
                crate::refpath::clean(r) == *t && crate::refpath::relative(t, &dir) == *r
            } else {
                // the virtual root is not the real root: a text that climbs above it leaves the sandbox
                let depth = tree::depth(&dir) as i64;
                let mut level = depth;
                let mut escapes = false;
                for c in r.split('/') {
                    match c {
                        ".." => level -= 1,
                        "" | "." => {},
                        _ => level += 1,
                    }
                    if level < 0 {
                        escapes = true;
                    }
                }
                !escapes && crate::refpath::clean(&format!("{}/{}", dir, r)) == *t && crate::refpath::relative(t, &dir) == *r
            }
        },
        _ => true,
    })
}

/// Operation stays inside what the DIFF world may do to a real filesystem
fn admissible(m: &Model, op: &Op) -> bool {
    admissible_x(m, op, false)
}

/// `cwd_fault`: the call that removes the (empty) working directory itself is let through - the
/// "working directory vanished" fault. While it is gone only calls that are stated to do no IO
/// with the cwd (abs of an absolute spelling) and the way back (set_cwd to an absolute path) run.
fn admissible_x(m: &Model, op: &Op, cwd_fault: bool) -> bool {
    if m.k(&m.t.cwd) == K::Missing {
        return match op {
            Op::Abs { p } | Op::SetCwd { p } => p.starts_with('/'),
            _ => false,
        };
    }
    if let Op::Abs { .. } = op {
        return true; // does no IO whatever its argument
    }
    if cwd_fault {
        if let Op::Remove { p } = op {
            if let Ok(a) = m.abs(p) {
                if a == m.t.cwd && a != "/" && m.k(&a) == K::Dir && m.t.children(&a).is_empty() && !m.through_link(&a) {
                    return true;
                }
            }
        }
    }
    let mut abs = vec![];
    for p in op.paths() {
        match m.abs(&p) {
            Ok(a) => {
                if m.through_link(&a) {
                    return false;
                }
                abs.push(a);
            },
            Err(_) => return false,
        }
    }
    if let Op::Symlink { l, t } = op {
        // the target is judged after joining it onto the link's directory
        if let Ok(la) = m.abs(l) {
            let lp = tree::parent(&la).unwrap_or_else(|| "/".into());
            let joined = if t.starts_with('/') { t.clone() } else { crate::refpath::mash(&lp, t) };
            match m.abs(&joined) {
                Ok(ta) => {
                    if m.through_link(&ta) {
                        return false;
                    }
                },
                Err(_) => return false,
            }
        }
    }
    let cwd = m.t.cwd.clone();
    match op {
        // never pull the process cwd (or the sandbox root) out from under the real backend
        Op::Remove { .. } | Op::RemoveAll { .. } => !abs.iter().any(|a| is_under(&cwd, a)),
        Op::Macro { name, .. } if name == "remove" || name == "remove_all" => !is_under(&cwd, &abs[0]),
        Op::MoveP { .. } => {
            // neither the source nor a destination that gets replaced may hold the process cwd
            let into = m.k(&abs[1]) == K::Dir;
            let eff = if into { tree::join(&abs[1], tree::base(&abs[0])) } else { abs[1].clone() };
            !is_under(&cwd, &abs[0]) && abs[0] != "/" && !is_under(&cwd, &eff)
        },
        Op::Copy { .. } | Op::CopyB { .. } => abs[0] != "/",
        _ => true,
    }
}

/// A handle the DIFF world holds open on both sides (0 = read, 1 = write, 2 = append)
#[derive(Clone, Debug)]
struct LiveH {
    path: String,
    kind: u8,
}

fn is_query(op: &Op) -> bool {
    matches!(
        op,
        Op::Abs { .. }
            | Op::AllDirs { .. }
            | Op::AllFiles { .. }
            | Op::AllPaths { .. }
            | Op::Paths { .. }
            | Op::Dirs { .. }
            | Op::Files { .. }
            | Op::Entries { .. }
            | Op::Entry { .. }
            | Op::Exists { .. }
            | Op::IsDir { .. }
            | Op::IsFile { .. }
            | Op::IsExec { .. }
            | Op::IsReadonly { .. }
            | Op::IsSymlink { .. }
            | Op::IsSymlinkDir { .. }
            | Op::IsSymlinkFile { .. }
            | Op::Gid { .. }
            | Op::Uid { .. }
            | Op::Owner { .. }
            | Op::Mode { .. }
            | Op::ReadAll { .. }
            | Op::ReadLines { .. }
            | Op::Readlink { .. }
            | Op::ReadlinkAbs { .. }
            | Op::Cwd
            | Op::Root
            | Op::SetCwd { .. }
    ) || op.is_handle_op()
}

/// The two backends buffer differently (Memfs handles hold their bytes until flush, read handles
/// are snapshots; the OS writes through and reads live). What the handle contracts state is what
/// both must agree on, so the DIFF world keeps to histories in which that difference cannot show:
/// a file with a live read or write handle is left alone by other calls, a file with a live
/// append handle may be read, written and appended to by other calls but not removed, moved,
/// replaced or re-moded, and every handle write is followed by a flush on both sides.
fn handle_ok(live: &[Option<LiveH>], m: &Model, op: &Op) -> bool {
    if live.iter().all(|l| l.is_none()) && !matches!(op, Op::OpenRead { .. } | Op::OpenWrite { .. } | Op::OpenAppend { .. }) {
        return true;
    }
    if is_query(op) {
        return true;
    }
    let abs: Vec<String> = op.paths().iter().filter_map(|p| m.abs(p).ok()).collect();
    if let Op::OpenRead { p, .. } | Op::OpenWrite { p, .. } | Op::OpenAppend { p, .. } = op {
        let a = match m.abs(p) {
            Ok(a) => a,
            Err(_) => return false,
        };
        if matches!(m.k(&a), K::LinkF | K::LinkD) {
            return false;
        }
        let new_append = matches!(op, Op::OpenAppend { .. });
        return live.iter().flatten().all(|l| l.path != a || (new_append && l.kind == 2));
    }
    let mut touched = abs.clone();
    if let Op::MoveP { .. } | Op::Copy { .. } | Op::CopyB { .. } = op {
        if abs.len() == 2 && m.k(&abs[1]) == K::Dir {
            touched.push(tree::join(&abs[1], tree::base(&abs[0])));
        }
    }
    for l in live.iter().flatten() {
        for a in &touched {
            if *a == l.path || is_under(&l.path, a) {
                let content_call = matches!(op, Op::AppendAll { .. } | Op::AppendLine { .. } | Op::AppendLines { .. } | Op::WriteAll { .. } | Op::WriteLines { .. });
                if !(l.kind == 2 && *a == l.path && content_call) {
                    return false;
                }
            }
            // the same file under another name: a link to it that the call touches or contains
            let alias = m.t.nodes.iter().any(|(k, n)| n.kind == Kind::Link && n.target.as_deref() == Some(l.path.as_str()) && (k == a || is_under(k, a)));
            if alias {
                return false;
            }
        }
    }
    true
}

fn materialise_disk(sb: &Sandbox, t: &Tree) -> std::io::Result<()> {
    // parents sort before children
    for (k, n) in &t.nodes {
        if k == "/" {
            continue;
        }
        let p = sb.real(k);
        match n.kind {
            Kind::Dir => std::fs::create_dir(&p)?,
            Kind::File => std::fs::write(&p, &n.data.clone().unwrap_or_default().0)?,
            Kind::Link => {
                // an absolute text is a virtual path: on disk it must name the place inside the
                // sandbox (the virtual root is not the real root)
                let text = n.rel.clone().unwrap_or_default();
                let text = if text.starts_with('/') { sb.real(&text) } else { text };
                std::os::unix::fs::symlink(text, &p)?
            },
        }
    }
    // permissions last (a restrictive parent must not block creating its children)
    for (k, n) in t.nodes.iter().rev() {
        if k == "/" || n.kind == Kind::Link {
            continue;
        }
        std::fs::set_permissions(sb.real(k), std::fs::Permissions::from_mode(n.mode & 0o7777))?;
    }
    Ok(())
}

fn materialise_mem(sb: &Sandbox, fs: &Memfs, t: &Tree) -> Result<(), String> {
    fs.mkdir_p(&sb.root).map_err(|e| e.to_string())?;
    // links last, so that each records the kind its target really has
    let order = t.nodes.iter().filter(|(_, n)| n.kind != Kind::Link).chain(t.nodes.iter().filter(|(_, n)| n.kind == Kind::Link));
    for (k, n) in order {
        if k == "/" {
            continue;
        }
        let p = sb.real(k);
        match n.kind {
            Kind::Dir => {
                fs.mkdir_m(&p, n.mode & 0o7777).map_err(|e| e.to_string())?;
            },
            Kind::File => {
                fs.write_all(&p, &n.data.clone().unwrap_or_default().0).map_err(|e| e.to_string())?;
                fs.chmod(&p, n.mode & 0o7777).map_err(|e| e.to_string())?;
            },
            Kind::Link => {
                fs.symlink(&p, sb.real(&n.target.clone().unwrap_or_default())).map_err(|e| e.to_string())?;
            },
        }
    }
    fs.set_cwd(sb.real(&t.cwd)).map_err(|e| e.to_string())?;
    Ok(())
}

pub const CMP: Cmp = Cmp { modes: true, owners: false, data: true, targets: false, rel: true, link_kind: false, cwd: false, perm_only: true };

fn mem_tree(sb: &Sandbox, fs: &Memfs) -> Tree {
    let mut t = sb.virt_tree(&tree::tree_of(&fs.verif_snapshot()));
    // link permission bits are not observable on Linux in a meaningful way
    for n in t.nodes.values_mut() {
        if n.kind == Kind::Link {
            n.mode = 0o120777;
        }
    }
    t
}

fn disk_tree(sb: &Sandbox) -> Result<Tree, String> {
    let mut t = sb.virt_tree(&tree::observe_disk(&sb.root).map_err(|e| format!("observer: {}", e))?);
    for n in t.nodes.values_mut() {
        if n.kind == Kind::Link {
            n.mode = 0o120777;
        }
    }
    t.cwd = std::env::current_dir().ok().and_then(|c| sb.virt(&c.to_string_lossy())).unwrap_or_else(|| "<outside>".into());
    Ok(t)
}

/// The mode an Entry reports for a link is the link's own on Memfs and the target's on Stdfs; the
/// documentation does not say which (DESIGN Appendix E), so it is not compared across backends
fn link_neutral(v: &EntryView) -> EntryView {
    let mut v = v.clone();
    if v.link {
        v.mode = 0;
        v.exec = false;
        v.readonly = false;
    }
    v
}

fn normalise(o: &Outcome) -> Outcome {
    match o {
        // which error is reported is not part of the interchangeability statement
        Outcome::Err(_) => Outcome::Err("any".into()),
        // (what a macro says when it fails quotes backend-specific error text)
        Outcome::Panic(_) => Outcome::Panic("any".into()),
        Outcome::Ok(Val::Entry(v)) => Outcome::Ok(Val::Entry(link_neutral(v))),
        Outcome::Ok(Val::EntryF(a, b, c, d)) => Outcome::Ok(Val::EntryF(link_neutral(a), link_neutral(b), link_neutral(c), link_neutral(d))),
        // traversal order of unsorted listings is free (and C08's business when sorted): multiset
        Outcome::Ok(Val::Entries(items, ended)) => {
            let mut it: Vec<Result<EntryView, String>> = items.iter().map(|x| x.as_ref().map(link_neutral).map_err(|_| "any".to_string())).collect();
            if it.iter().any(|x| x.is_err()) {
                // where an unsorted traversal stops with an error depends on the enumeration
                // order: only the fact that it did is compared
                it = vec![Err("any".to_string())];
            }
            it.sort_by_key(|x| format!("{:?}", x));
            Outcome::Ok(Val::Entries(it, *ended))
        },
        x => x.clone(),
    }
}

pub enum Src<'a> {
    Gen { gen: &'a mut Gen, rng: &'a mut Rng, len: usize },
    Replay(&'a [Op]),
}

pub struct DiffOut {
    pub ops: Vec<Op>,
    pub violations: Vec<Violation>,
    pub log_hash: u64,
    pub harness_skip: Option<String>,
}

/// Values that are compared between the backends for this operation
fn comparable(op: &Op) -> bool {
    // owners: Memfs invents 1000:1000, the disk has the uid the harness runs as
    !matches!(op, Op::Uid { .. } | Op::Gid { .. } | Op::Owner { .. } | Op::Chown { .. } | Op::ChownB { .. })
}

pub fn run_diff(
    prop: &str, sb: &Sandbox, knobs: &Knobs, venv: &Env, pre: &Tree, mut src: Src, stats: &mut Stats, known: &dyn Fn(&Violation) -> bool,
) -> DiffOut {
    let relevant: Option<Vec<&'static str>> = leg(prop).map(|l| l.1);
    let mut out = DiffOut { ops: vec![], violations: vec![], log_hash: 0, harness_skip: None };
    if let Err(e) = sb.fresh() {
        out.harness_skip = Some(format!("sandbox: {}", e));
        return out;
    }
    seq::set_env(&sb.map_env(venv));
    let hk = hooks::install_seq(knobs);
    let mem = Memfs::new();
    let std_ = Stdfs::new();
    let finish = |out: DiffOut| -> DiffOut {
        hooks::uninstall();
        let _ = std::env::set_current_dir("/");
        out
    };
    // pre-state on both sides, verified equal by the observers before anything is compared
    if let Err(e) = materialise_disk(sb, pre) {
        out.harness_skip = Some(format!("materialise disk: {}", e));
        return finish(out);
    }
    if let Err(e) = materialise_mem(sb, &mem, pre) {
        out.harness_skip = Some(format!("materialise memfs: {}", e));
        return finish(out);
    }
    if std::env::set_current_dir(sb.real(&pre.cwd)).is_err() {
        out.harness_skip = Some("cwd".into());
        return finish(out);
    }
    let d0 = match disk_tree(sb) {
        Ok(t) => t,
        Err(e) => {
            out.harness_skip = Some(e);
            return finish(out);
        },
    };
    let m0 = mem_tree(sb, &mem);
    if !tree::diff(&m0, &d0, CMP).is_empty() || !tree::diff(&m0, pre, CMP).is_empty() {
        out.harness_skip = Some(format!("pre-states differ: {:?}", tree::diff(&m0, &d0, CMP).iter().take(3).collect::<Vec<_>>()));
        return finish(out);
    }
    stats.runs += 1;
    let mut m = Model::new(venv.clone());
    m.t = m0.clone();
    m.t.cwd = pre.cwd.clone();
    let mut mhs = Handles::default();
    let mut shs = Handles::default();
    let total = match &src {
        Src::Gen { len, .. } => *len,
        Src::Replay(o) => o.len(),
    };
    let mut i = 0;
    let mut attempts = 0;
    let mut live: Vec<Option<LiveH>> = vec![None; 4];
    let dangling_ok = prop == "C10";
    let cwd_fault = prop == "C02";
    while i < total {
        if !in_domain_opt(&m, dangling_ok) {
            stats.bump("runs_ended_leaving_the_domain");
            break;
        }
        let vop = match &mut src {
            Src::Gen { gen, rng, .. } => {
                attempts += 1;
                if attempts > total * 20 {
                    break;
                }
                let mut op = gen.next_op(&m, rng);
                sanitize(&mut op);
                if cwd_fault && m.k(&m.t.cwd) == K::Missing {
                    // the working directory has vanished: abs of absolute spellings, then the way back
                    let keys: Vec<String> = m.t.nodes.keys().cloned().collect();
                    let k = rng.pick(&keys[..]).clone();
                    op = match rng.below(4) {
                        0 => Op::SetCwd { p: "/".into() },
                        1 => Op::Abs { p: format!("{}/x/../y", if k == "/" { "" } else { &k }) },
                        _ => Op::Abs { p: k },
                    };
                    stats.bump("fault.F13_working_directory_vanished.calls_while_gone");
                } else if cwd_fault && m.t.cwd != "/" && m.k(&m.t.cwd) == K::Dir && m.t.children(&m.t.cwd).is_empty() && rng.chance(1, 6) {
                    op = Op::Remove { p: m.t.cwd.clone() };
                    stats.bump("fault.F13_working_directory_vanished");
                }
                if !admissible_x(&m, &op, cwd_fault) || !comparable(&op) || !handle_ok(&live, &m, &op) {
                    continue;
                }
                op
            },
            Src::Replay(o) => {
                let op = o[i].clone();
                if !admissible_x(&m, &op, cwd_fault) || !handle_ok(&live, &m, &op) {
                    i += 1;
                    continue;
                }
                op
            },
        };
        i += 1;
        let class = seq::op_class(&m, &vop);
        let rop = sb.map_op(&vop);
        if crate::TRACE.load(std::sync::atomic::Ordering::Relaxed) {
            use std::io::Write;
            println!("T {}", json!({"label": vop.label(), "op": vop}));
            let _ = std::io::stdout().flush();
        }
        let mut mo = exec::exec(&mem, &mut mhs, &rop);
        let mut so = exec::exec(&std_, &mut shs, &rop);
        // buffering is not part of any contract: every open and every handle write is made
        // visible on both sides before anything is compared
        if let Op::HWrite { h, .. } | Op::OpenWrite { h, .. } | Op::OpenAppend { h, .. } = &vop {
            if mo.is_ok() && so.is_ok() {
                let fm = exec::exec(&mem, &mut mhs, &Op::HFlush { h: *h });
                let fs = exec::exec(&std_, &mut shs, &Op::HFlush { h: *h });
                if fm.class3() != fs.class3() || !fm.is_ok() {
                    mo = fm;
                    so = fs;
                }
            }
        }
        match &vop {
            Op::OpenRead { h, p } | Op::OpenWrite { h, p } | Op::OpenAppend { h, p } => {
                if mo.is_ok() && so.is_ok() {
                    let kind = match &vop {
                        Op::OpenRead { .. } => 0,
                        Op::OpenWrite { .. } => 1,
                        _ => 2,
                    };
                    live[*h] = m.abs(p).ok().map(|path| LiveH { path, kind });
                }
            },
            Op::HDrop { h } | Op::HDropUnwind { h } => live[*h] = None,
            _ => {},
        }
        out.ops.push(vop.clone());
        stats.steps += 1;
        let step = out.ops.len() - 1;
        let mut v: Option<Violation> = None;
        let _ = exec::ENTRY_MISMATCH.with(|mm| mm.borrow_mut().take());
        if let Some(d) = exec::FOLLOW_TWICE.with(|mm| mm.borrow_mut().take()) {
            if prop == "C10" {
                v = Some(Violation {
                    property: prop.into(),
                    oracle: "follow-swaps-once".into(),
                    step,
                    sig: format!("follow-twice|{}", vop.label()),
                    detail: format!("{:?}: {}", vop, d.chars().take(400).collect::<String>()),
                });
            }
        }
        if let Some(d) = exec::MACRO_TWICE.with(|mm| mm.borrow_mut().take()) {
            if prop == "C20" && v.is_none() {
                v = Some(Violation {
                    property: prop.into(),
                    oracle: "macro-argument-evaluation".into(),
                    step,
                    sig: format!("macro-arg-evals|{}", vop.label()),
                    detail: format!("{:?}: {}", vop, d),
                });
            }
        }
        let (mn, sn) = (normalise(&mo), normalise(&so));
        if v.is_some() {
        } else if mo.class3() != so.class3() {
            v = Some(Violation {
                property: prop.into(),
                oracle: "backend-outcome".into(),
                step,
                sig: format!("diff-outcome|{}|{}|memfs={} stdfs={}", vop.label(), class, mo.class3(), so.class3()),
                detail: format!("{:?}: Memfs {:?} but Stdfs {:?}", vop, mo, so),
            });
        } else if mn != sn && !(matches!(vop, Op::IsExec { .. } | Op::IsReadonly { .. }) && class.starts_with("link-")) {
            v = Some(Violation {
                property: prop.into(),
                oracle: "backend-value".into(),
                step,
                sig: format!("diff-value|{}|{}", vop.label(), class),
                detail: format!("{:?}: Memfs {:?} but Stdfs {:?}", vop, mo, so),
            });
        }
        let mt = mem_tree(sb, &mem);
        let dt = match disk_tree(sb) {
            Ok(t) => t,
            Err(e) => {
                out.harness_skip = Some(e);
                break;
            },
        };
        // a multi-entry call that failed on both sides may have stopped at different points
        // (enumeration order is free): its partial effect is not compared and the run ends
        let failed_multi = mo.is_err()
            && so.is_err()
            && matches!(vop, Op::Copy { .. } | Op::CopyB { .. } | Op::Chmod { .. } | Op::ChmodB { .. } | Op::RemoveAll { .. });
        if failed_multi {
            stats.bump("runs_ended_after_failed_multi_entry_call");
            break;
        }
        // a copy whose destination lies inside its source reads files it may already have
        // overwritten in the same call: which bytes win depends on the enumeration order, which is
        // free. Outcomes are compared, the resulting trees are not, and the run ends.
        // (whether such a copy runs into a kind conflict at all also depends on that order)
        if matches!(vop, Op::Copy { .. } | Op::CopyB { .. }) && class.contains("rel=dst-inside-src") {
            stats.bump("runs_ended_after_copy_into_own_subtree");
            break;
        }
        if v.is_none() {
            let mut ds = tree::diff(&mt, &dt, CMP);
            let mcwd = mem.cwd().map(|c| exec::ps(&c)).unwrap_or_default();
            let mcwd_v = sb.virt(&mcwd).unwrap_or(mcwd);
            // a working directory that no longer exists has no counterpart to compare
            if mcwd_v != dt.cwd && mt.nodes.contains_key(&mcwd_v) {
                ds.push(tree::Delta { what: "cwd", path: mcwd_v.clone(), detail: format!("memfs cwd {} disk cwd {}", mcwd_v, dt.cwd) });
            }
            if !ds.is_empty() {
                let mut kinds: Vec<&str> = ds.iter().map(|d| d.what).collect();
                kinds.sort();
                kinds.dedup();
                v = Some(Violation {
                    property: prop.into(),
                    oracle: "backend-state".into(),
                    step,
                    sig: format!("diff-state|{}|{}|{}|{}", vop.label(), class, mo.class3(), kinds.join("+")),
                    detail: format!("{:?} ({} on both): memfs tree vs disk: {:?}", vop, mo.class3(), ds.iter().take(5).collect::<Vec<_>>()),
                });
            }
        }
        let triple = format!("{}|{}|{}/{}", vop.label(), class, mo.class3(), so.class3());
        if m.t.nodes.len() <= 1 {
            stats.trivial_triples.insert(triple);
        } else {
            stats.triples.insert(triple);
        }
        stats.shapes.insert(mt.shape_hash());
        stats.bump(&format!("op.{}", vop.name()));
        // (the sandbox location carries the worker's pid: not part of a run's identity)
        out.log_hash = hash_bytes(out.log_hash, format!("{:?}{:?}{:?}", vop, mn, sn).replace(&sb.root, "<SB>").replace(&sb.base, "<SBBASE>").as_bytes());
        out.log_hash = hash_bytes(out.log_hash, &mt.full_hash().to_le_bytes());
        // the model follows Memfs (it only steers generation and the domain filter)
        let pre_t = m.t.clone();
        m.t = mt.clone();
        m.t.cwd = sb.virt(&mem.cwd().map(|c| exec::ps(&c)).unwrap_or_default()).unwrap_or_else(|| "/".into());
        m.after(&vop, &mo, &pre_t);
        let _ = (Expect::Any, Next::Same);
        if let (Some(_), Some(rel)) = (&v, &relevant) {
            let dangling_arg = class.contains("->missing");
            let stated_for_dangling = matches!(vop.name(), "symlink" | "readlink" | "readlink_abs" | "is_symlink" | "is_file" | "is_dir" | "remove");
            if !rel.contains(&vop.name()) || (dangling_arg && !stated_for_dangling) {
                // a divergence on an operation that belongs to another property: not reported by
                // this leg, but nothing after it can be attributed either
                stats.bump("leg_runs_ended_by_foreign_divergence");
                break;
            }
        }
        if let Some(v) = v {
            if known(&v) {
                *stats.known_hits.entry(v.sig.clone()).or_insert(0) += 1;
                stats.runs_ended_by_known += 1;
            } else {
                out.violations.push(v);
            }
            // the two sides have diverged: nothing after this step can be attributed
            break;
        }
    }
    mhs.clear();
    shs.clear();
    let _ = hk;
    finish(out)
}

/// Random virtual pre-state built by applying creation calls to the reference model only
fn random_tree(gen: &mut Gen, venv: &Env, rng: &mut Rng) -> Tree {
    let mut m = Model::new(venv.clone());
    let n = rng.weighted(&[2, 3, 4, 4, 4, 3, 3, 2, 2, 1, 1]);
    let kinds = ["mkdir_p", "mkdir_p", "mkdir_m", "mkfile", "write_all", "write_all", "mkfile_m", "symlink"];
    for _ in 0..n {
        let k = *rng.pick(&kinds);
        let mut op = gen.build(k, &m, rng);
        sanitize(&mut op);
        if !admissible(&m, &op) {
            continue;
        }
        if let Some(a) = m.eval(&op).into_iter().find(|a| matches!(a.expect, Expect::Exact(Outcome::Ok(_)))) {
            if let Next::State(t) = a.next {
                let cwd = m.t.cwd.clone();
                m.t = *t;
                m.t.cwd = cwd;
            }
        }
        if !in_domain(&m) {
            // undo: the pre-state must be inside the stated domain
            m = Model::new(venv.clone());
        }
    }
    if rng.chance(1, 4) {
        let dirs: Vec<String> = m.t.nodes.iter().filter(|(_, n)| n.kind == Kind::Dir).map(|(k, _)| k.clone()).collect();
        m.t.cwd = rng.pick(&dirs).clone();
    }
    m.t
}

fn venv_of(names: &[String], rng: &mut Rng) -> Env {
    let mut env = Env::new();
    env.insert("HOME".into(), if rng.chance(1, 10) { "/".into() } else { format!("/{}", names[0]) });
    env.insert("RV_A".into(), names[1 % names.len()].clone());
    env.insert("RV_B".into(), format!("/{}/{}", names[0], names[1 % names.len()]));
    env
}

thread_local! {
    static SANDBOX: Sandbox = Sandbox::new();
}

pub fn drop_privileges_once() {
    // a defect in the code under test must not be able to damage the machine: the DIFF world runs
    // as an unprivileged user once its private sandbox exists
    use std::sync::Once;
    static ONCE: Once = Once::new();
    ONCE.call_once(|| unsafe {
        if libc::geteuid() == 0 && std::env::var("RVSIM_KEEP_ROOT").is_err() {
            SANDBOX.with(|sb| {
                let _ = std::fs::create_dir_all(&sb.base);
                let c = std::ffi::CString::new(sb.base.clone()).unwrap();
                libc::chown(c.as_ptr(), 65534, 65534);
            });
            libc::setgroups(0, std::ptr::null());
            libc::setgid(65534);
            libc::setuid(65534);
        }
    });
}

fn replay_case(c: &DiffCase, stats: &mut Stats) -> DiffOut {
    drop_privileges_once();
    SANDBOX.with(|sb| {
        let o = run_diff(&c.property, sb, &c.knobs, &c.env, &c.tree, Src::Replay(&c.ops), stats, &|_| false);
        sb.cleanup();
        o
    })
}

fn minimise(mut case: DiffCase, sig: &str) -> DiffCase {
    let still = |c: &DiffCase| -> Option<Violation> {
        let mut st = Stats::default();
        replay_case(c, &mut st).violations.into_iter().find(|v| v.sig == sig)
    };
    if still(&case).is_none() {
        return case;
    }
    if let Some(e) = &case.expect {
        case.ops.truncate(e.step + 1);
    }
    let mut budget = 120;
    let mut i = 0;
    while i + 1 < case.ops.len() && budget > 0 {
        let mut c2 = case.clone();
        c2.ops.remove(i);
        budget -= 1;
        if still(&c2).is_some() {
            case = c2;
        } else {
            i += 1;
        }
    }
    // drop pre-state entries, leaves first
    let keys: Vec<String> = case.tree.nodes.keys().rev().cloned().collect();
    for k in keys {
        if k == "/" || budget == 0 {
            continue;
        }
        if case.tree.nodes.keys().any(|o| o != &k && is_under(o, &k)) || case.tree.cwd == k {
            continue;
        }
        let mut c2 = case.clone();
        c2.tree.nodes.remove(&k);
        budget -= 1;
        if still(&c2).is_some() {
            case = c2;
        }
    }
    let mut c2 = case.clone();
    c2.knobs = Knobs::default();
    if still(&c2).is_some() {
        case = c2;
    }
    if let Some(v) = still(&case) {
        case.expect = Some(seq::ExpectSig { sig: v.sig.clone(), step: v.step });
        case.what = v.detail;
    }
    case
}

/// Twin mode on the real backend: the same history runs in two sibling sandboxes, once on `Stdfs`
/// directly and once
///  * through `Vfs::Stdfs` (C13: the wrapper arms of the real backend), or
///  * with every path argument already resolved (C05: spelling independence on the real backend).
/// Outcomes (sandbox prefix normalised) and the trees seen by the disk observer must coincide.
pub fn run_twin(prop: &str, base: &Sandbox, venv: &Env, pre: &Tree, mut src: Src, stats: &mut Stats, known: &dyn Fn(&Violation) -> bool) -> DiffOut {
    let mut out = DiffOut { ops: vec![], violations: vec![], log_hash: 0, harness_skip: None };
    let a = Sandbox { base: base.base.clone(), root: format!("{}/a/_/_/_/_/_/_/_/_/sb", base.base) };
    let b = Sandbox { base: base.base.clone(), root: format!("{}/b/_/_/_/_/_/_/_/_/sb", base.base) };
    if let Err(e) = base.fresh().and_then(|_| std::fs::create_dir_all(&a.root)).and_then(|_| std::fs::create_dir_all(&b.root)) {
        out.harness_skip = Some(format!("sandbox: {}", e));
        return out;
    }
    for sb in [&a, &b] {
        if let Err(e) = materialise_disk(sb, pre) {
            out.harness_skip = Some(format!("materialise disk: {}", e));
            let _ = std::env::set_current_dir("/");
            return out;
        }
    }
    let with_targets = |sb: &Sandbox| -> Result<Tree, String> {
        let mut t = disk_tree(sb)?;
        // the observer reads link texts only: derive the absolute targets lexically
        let keys: Vec<String> = t.nodes.keys().cloned().collect();
        for k in keys {
            let n = t.nodes.get_mut(&k).unwrap();
            if n.kind == Kind::Link {
                let r = n.rel.clone().unwrap_or_default();
                let dir = tree::parent(&k).unwrap_or_else(|| "/".into());
                n.target = Some(if r.starts_with('/') { sb.virt(&r).unwrap_or(r) } else { crate::refpath::clean(&format!("{}/{}", dir, r)) });
            }
        }
        Ok(t)
    };
    let direct = Stdfs::new();
    let wrapped = Vfs::stdfs();
    let mut ha = Handles::default();
    let mut hb = Handles::default();
    let mut cwd_a = a.real(&pre.cwd);
    let mut cwd_b = b.real(&pre.cwd);
    let mut m = Model::new(venv.clone());
    m.t = match with_targets(&a) {
        Ok(mut t) => {
            t.cwd = pre.cwd.clone();
            t
        },
        Err(e) => {
            out.harness_skip = Some(e);
            return out;
        },
    };
    stats.runs += 1;
    let total = match &src {
        Src::Gen { len, .. } => *len,
        Src::Replay(o) => o.len(),
    };
    let mut i = 0;
    let mut attempts = 0;
    while i < total {
        // both sides are the real backend: dangling links are as comparable as any other state
        if !in_domain_opt(&m, true) {
            break;
        }
        let vop = match &mut src {
            Src::Gen { gen, rng, .. } => {
                attempts += 1;
                if attempts > total * 20 {
                    break;
                }
                let mut op = gen.next_op(&m, rng);
                sanitize(&mut op);
                if !admissible(&m, &op) || !comparable(&op) {
                    continue;
                }
                if let Op::Abs { p } = &op {
                    // the virtual root is not the real root: climbing above it has no twin meaning
                    if m.abs(p).is_err() {
                        continue;
                    }
                }
                op
            },
            Src::Replay(o) => {
                let op = o[i].clone();
                if !admissible(&m, &op) {
                    i += 1;
                    continue;
                }
                op
            },
        };
        i += 1;
        let class = seq::op_class(&m, &vop);
        let vop_b = if prop == "C05" { seq::canonical_op(&m, &vop).unwrap_or_else(|| vop.clone()) } else { vop.clone() };
        seq::set_env(&a.map_env(venv));
        let _ = std::env::set_current_dir(&cwd_a);
        let oa = exec::exec(&direct, &mut ha, &a.map_op(&vop));
        cwd_a = std::env::current_dir().map(|c| c.to_string_lossy().into_owned()).unwrap_or(cwd_a);
        seq::set_env(&b.map_env(venv));
        let _ = std::env::set_current_dir(&cwd_b);
        let ob = if prop == "C05" { exec::exec(&direct, &mut hb, &b.map_op(&vop_b)) } else { exec::exec(&wrapped, &mut hb, &b.map_op(&vop_b)) };
        cwd_b = std::env::current_dir().map(|c| c.to_string_lossy().into_owned()).unwrap_or(cwd_b);
        out.ops.push(vop.clone());
        stats.steps += 1;
        let step = out.ops.len() - 1;
        let na = format!("{:?}", normalise_order(&oa)).replace(&a.root, "<SB>").replace(&a.base, "<SBBASE>");
        let nb = format!("{:?}", normalise_order(&ob)).replace(&b.root, "<SB>").replace(&b.base, "<SBBASE>");
        let what = if prop == "C05" { "spelling" } else { "wrapper" };
        let mut v: Option<Violation> = None;
        let _ = exec::FOLLOW_TWICE.with(|mm| mm.borrow_mut().take());
        let _ = exec::MACRO_TWICE.with(|mm| mm.borrow_mut().take());
        if let Some(d) = exec::ENTRY_MISMATCH.with(|mm| mm.borrow_mut().take()) {
            if prop == "C13" {
                v = Some(Violation {
                    property: prop.into(),
                    oracle: "stdfs-entry-accessors".into(),
                    step,
                    sig: format!("stdfs-wrapper-entry|{}", vop.label()),
                    detail: format!("{:?}: {}", vop, d.chars().take(400).collect::<String>()),
                });
            }
        }
        // copy with follow places followed content under the target's absolute path, which contains
        // the sandbox's own name: the two sibling sandboxes cannot be compared after it
        let follow_copy = matches!(&vop, Op::CopyB { calls, .. } if calls.iter().any(|c| matches!(c, CopyCall::Follow(true))));
        if follow_copy || (matches!(vop, Op::Copy { .. } | Op::CopyB { .. }) && class.contains("rel=dst-inside-src")) {
            if oa.class3() != ob.class3() && !class.contains("rel=dst-inside-src") {
                out.violations.push(Violation {
                    property: prop.into(),
                    oracle: format!("stdfs-{}-outcome", what),
                    step,
                    sig: format!("stdfs-{}-outcome|{}|{}|{} vs {}", what, vop.label(), class, oa.class3(), ob.class3()),
                    detail: format!("{:?}: {} vs {}", vop, na.chars().take(200).collect::<String>(), nb.chars().take(200).collect::<String>()),
                });
            }
            stats.bump("twin_runs_ended_after_follow_copy");
            break;
        }
        if v.is_none() && na != nb {
            v = Some(Violation {
                property: prop.into(),
                oracle: format!("stdfs-{}-outcome", what),
                step,
                sig: format!("stdfs-{}-outcome|{}|{}|{} vs {}", what, vop.label(), class, oa.class3(), ob.class3()),
                detail: format!("{:?} -> {} but {} {:?} -> {}", vop, na.chars().take(300).collect::<String>(), what, vop_b, nb.chars().take(300).collect::<String>()),
            });
        }
        let (ta, tb) = match (with_targets(&a), with_targets(&b)) {
            (Ok(x), Ok(y)) => (x, y),
            _ => {
                out.harness_skip = Some("observer".into());
                break;
            },
        };
        if v.is_none() {
            let mut ds = tree::diff(&ta, &tb, CMP);
            let (va, vb) = (a.virt(&cwd_a).unwrap_or_default(), b.virt(&cwd_b).unwrap_or_default());
            if va != vb {
                ds.push(tree::Delta { what: "cwd", path: va.clone(), detail: format!("cwd {} vs {}", va, vb) });
            }
            if !ds.is_empty() {
                let mut kinds: Vec<&str> = ds.iter().map(|d| d.what).collect();
                kinds.sort();
                kinds.dedup();
                v = Some(Violation {
                    property: prop.into(),
                    oracle: format!("stdfs-{}-state", what),
                    step,
                    sig: format!("stdfs-{}-state|{}|{}|{}", what, vop.label(), class, kinds.join("+")),
                    detail: format!("{:?} vs {} {:?}: trees differ: {:?}", vop, what, vop_b, ds.iter().take(4).collect::<Vec<_>>()),
                });
            }
        }
        stats.bump(&format!("stdfs_twin_compared.{}", vop.name()));
        let triple = format!("twin|{}|{}|{}", vop.label(), class, oa.class3());
        if m.t.nodes.len() <= 1 {
            stats.trivial_triples.insert(triple);
        } else {
            stats.triples.insert(triple);
        }
        out.log_hash = hash_bytes(out.log_hash, format!("{:?}{}{}", vop, na, nb).as_bytes());
        out.log_hash = hash_bytes(out.log_hash, &ta.full_hash().to_le_bytes());
        let pre_t = m.t.clone();
        m.t = ta;
        m.t.cwd = a.virt(&cwd_a).unwrap_or_else(|| "/".into());
        m.after(&vop, &oa, &pre_t);
        if let Some(v) = v {
            if known(&v) {
                *stats.known_hits.entry(v.sig.clone()).or_insert(0) += 1;
            } else {
                out.violations.push(v);
            }
            break;
        }
        // a multi-entry call may stop at different points in the two sandboxes only if it failed
        if oa.is_err() && matches!(vop, Op::Copy { .. } | Op::CopyB { .. } | Op::Chmod { .. } | Op::ChmodB { .. } | Op::RemoveAll { .. }) {
            break;
        }
    }
    ha.clear();
    hb.clear();
    let _ = std::env::set_current_dir("/");
    out
}

fn normalise_order(o: &Outcome) -> Outcome {
    match o {
        // readdir order is the kernel's: unsorted traversals are compared as multisets
        Outcome::Ok(Val::Entries(items, ended)) => {
            let mut it = items.clone();
            if it.iter().any(|x| x.is_err()) {
                it = vec![Err("any".to_string())];
            }
            it.sort_by_key(|x| format!("{:?}", x));
            Outcome::Ok(Val::Entries(it, *ended))
        },
        x => x.clone(),
    }
}

pub fn twin_index(id: &str, tier: &str, seed: u64, idx: u64, stats: &mut Stats, known: &dyn Fn(&Violation) -> bool) -> Option<Finding> {
    drop_privileges_once();
    let rs = mix(&[seed, hash_str(id), hash_str(tier), hash_str("twin"), idx]);
    let mut rng = Rng::new(rs);
    let mut p = profile();
    if id == "C05" {
        p.spelling = 2;
    }
    // handles behave identically on both sides (same backend), so they need no special care here
    p.weights = cat(&[
        &p.weights,
        &[("open_read", 2), ("open_write", 2), ("open_append", 2), ("h_write", 5), ("h_flush", 2), ("h_drop", 3), ("h_read", 3), ("h_seek", 2), ("h_read_to_end", 1), ("read_all", 3)],
        // the queries whose answer for a link depends on whose mode is looked at
        &[("is_exec", 4), ("is_readonly", 3), ("mode", 2), ("is_symlink_file", 2), ("is_symlink_dir", 2)],
    ]);
    let mut gen = Gen::new(p, format!("{}", idx), &mut rng);
    let venv = venv_of(&gen.names, &mut rng);
    let pre = random_tree(&mut gen, &venv, &mut rng);
    let len = rng.range(1, 8);
    let out = SANDBOX.with(|sb| {
        let o = run_twin(id, sb, &venv, &pre, Src::Gen { gen: &mut gen, rng: &mut rng, len }, stats, known);
        sb.cleanup();
        o
    });
    if out.harness_skip.is_some() {
        stats.bump("HARNESS.twin_run_skipped");
        return None;
    }
    stats.distinct_cases.insert(out.log_hash);
    stats.bump("stdfs_twin_runs");
    let v = out.violations.into_iter().next()?;
    let mut case = DiffCase {
        format: 1,
        property: id.into(),
        world: "TWIN".into(),
        seed,
        run: idx,
        knobs: Knobs::default(),
        env: venv,
        tree: pre,
        ops: out.ops,
        expect: Some(seq::ExpectSig { sig: v.sig.clone(), step: v.step }),
        log_hash: format!("{:016x}", out.log_hash),
        what: v.detail.clone(),
    };
    // minimise: drop operations before the failing one while the signature persists
    let still = |c: &DiffCase| -> bool {
        let mut st = Stats::default();
        SANDBOX.with(|sb| {
            let o = run_twin(&c.property, sb, &c.env, &c.tree, Src::Replay(&c.ops), &mut st, &|_| false);
            sb.cleanup();
            o.violations.first().map(|x| x.sig == v.sig).unwrap_or(false)
        })
    };
    case.ops.truncate(v.step + 1);
    let mut i = 0;
    while i + 1 < case.ops.len() {
        let mut c2 = case.clone();
        c2.ops.remove(i);
        if still(&c2) {
            case = c2;
        } else {
            i += 1;
        }
    }
    case.expect = Some(seq::ExpectSig { sig: v.sig.clone(), step: case.ops.len().saturating_sub(1) });
    Some(Finding { violation: v, case: serde_json::to_value(&case).unwrap() })
}

pub fn replay_twin(case: &serde_json::Value) -> Result<(Option<Violation>, String), String> {
    drop_privileges_once();
    let c: DiffCase = serde_json::from_value(case.clone()).map_err(|e| e.to_string())?;
    let mut st = Stats::default();
    let out = SANDBOX.with(|sb| {
        let o = run_twin(&c.property, sb, &c.env, &c.tree, Src::Replay(&c.ops), &mut st, &|_| false);
        sb.cleanup();
        o
    });
    if let Some(w) = out.harness_skip {
        return Err(w);
    }
    Ok((out.violations.into_iter().next(), format!("{:016x}", out.log_hash)))
}

pub fn run_index(id: &str, tier: &str, seed: u64, idx: u64, stats: &mut Stats, known: &dyn Fn(&Violation) -> bool) -> Option<Finding> {
    drop_privileges_once();
    let rs = mix(&[seed, hash_str(id), hash_str(tier), idx]);
    let mut rng = Rng::new(rs);
    let knobs = pick_knobs(&mut rng);
    let mut gen = Gen::new(profile_for(id), format!("{}", idx), &mut rng);
    let venv = venv_of(&gen.names, &mut rng);
    let mut pre = random_tree(&mut gen, &venv, &mut rng);
    // (state, call) pairs dominate; the rest are short multi-step histories
    let mut len = if rng.chance(3, 5) { 1 } else { rng.range(2, 10) };
    // scale runs: a pre-state far beyond the usual sizes (a tree of several dozen entries with
    // nested directories of different modes, files of equal size above the usual buffer sizes)
    // and the copy / move calls that have to cope with it
    if idx % 128 == 69 && matches!(id, "C02" | "C09" | "C06" | "C07") && !pre.nodes.contains_key("/S") {
        stats.bump("scale_runs");
        let modes = [0o40755u32, 0o40700, 0o40750, 0o41777, 0o40711];
        pre.nodes.insert("/S".into(), Node::dir(*rng.pick(&modes)));
        let n = *rng.pick(&[22usize, 30, 60, 85]);
        let mut dirs = vec!["/S".to_string()];
        for i in 0..n {
            let par = rng.pick(&dirs[..]).clone();
            if i % 3 == 0 && tree::depth(&par) < 5 {
                let p = tree::join(&par, &format!("d{}", i));
                pre.nodes.insert(p.clone(), Node::dir(*rng.pick(&modes)));
                dirs.push(p);
            } else {
                let p = tree::join(&par, &format!("f{}", i));
                let mut nd = Node::dir(0);
                nd.kind = Kind::File;
                nd.mode = *rng.pick(&[0o100644u32, 0o100600, 0o100755]);
                nd.data = Some(Bytes(format!("<s{}.{}>", idx, i).into_bytes()));
                pre.nodes.insert(p, nd);
            }
        }
        let size = *rng.pick(&[65536usize, 65537, 70000, 100000, 200001]);
        for (k, name) in ["big1", "big2"].iter().enumerate() {
            let mut d = format!("<{}.{}>", idx, name).into_bytes();
            d.resize(size, b'a' + k as u8);
            let mut nd = Node::dir(0);
            nd.kind = Kind::File;
            nd.mode = 0o100644;
            nd.data = Some(Bytes(d));
            pre.nodes.insert(format!("/S/{}", name), nd);
        }
        let forced = match rng.below(6) {
            0 => Op::Copy { s: "/S/big1".into(), d: "/S/big2".into() },
            1 => Op::Copy { s: "/S".into(), d: "/S2".into() },
            2 => Op::CopyB { s: "/S".into(), d: "/S3".into(), calls: vec![] },
            3 => Op::MoveP { s: "/S".into(), d: "/T".into() },
            4 => Op::Copy { s: "/S/big2".into(), d: "/copy-of-big".into() },
            _ => Op::CopyB { s: "/S".into(), d: "/S4".into(), calls: vec![CopyCall::ChmodFiles(0o600)] },
        };
        gen.queue.push_back(forced);
        gen.queue.push_back(Op::ReadAll { p: "/S/big2".into() });
        len += 2;
        // one write call larger than any buffer, through a write and through an append handle
        let mut blk = format!("<blk{}>", idx).into_bytes();
        blk.resize(*rng.pick(&[65537usize, 100000, 131073]), b'w');
        for op in [
            Op::OpenWrite { h: 0, p: "/hw".into() },
            Op::HWrite { h: 0, d: Bytes(blk.clone()) },
            Op::HDrop { h: 0 },
            Op::OpenAppend { h: 1, p: "/hw".into() },
            Op::HWrite { h: 1, d: Bytes(blk) },
            Op::HDrop { h: 1 },
        ] {
            gen.queue.push_back(op);
            len += 1;
        }
    }
    let out = SANDBOX.with(|sb| {
        let o = run_diff(id, sb, &knobs, &venv, &pre, Src::Gen { gen: &mut gen, rng: &mut rng, len }, stats, known);
        sb.cleanup();
        o
    });
    if let Some(why) = &out.harness_skip {
        stats.bump("HARNESS.diff_run_skipped");
        if stats.counters.get("HARNESS.diff_run_skipped").copied().unwrap_or(0) <= 3 {
            eprintln!("note: DIFF run {} skipped: {}", idx, why);
        }
        return None;
    }
    stats.distinct_cases.insert(out.log_hash);
    if len == 1 {
        stats.bump("state_call_pairs");
    } else {
        stats.bump("multi_step_histories");
    }
    if stats.samples.len() < 3 && !out.ops.is_empty() {
        stats.samples.push(json!({"run": idx, "pre_state": pre.nodes.keys().collect::<Vec<_>>(), "ops": out.ops}));
    }
    let v = out.violations.into_iter().next()?;
    let case = DiffCase {
        format: 1,
        property: id.into(),
        world: "DIFF".into(),
        seed,
        run: idx,
        knobs,
        env: venv,
        tree: pre,
        ops: out.ops,
        expect: Some(seq::ExpectSig { sig: v.sig.clone(), step: v.step }),
        log_hash: format!("{:016x}", out.log_hash),
        what: v.detail.clone(),
    };
    let case = minimise(case, &v.sig);
    let mut v = v;
    v.detail = case.what.clone();
    if let Some(e) = &case.expect {
        v.step = e.step;
    }
    let _ = Node::dir(0);
    Some(Finding { violation: v, case: serde_json::to_value(&case).unwrap() })
}

pub fn replay(case: &serde_json::Value) -> Result<(Option<Violation>, String), String> {
    let c: DiffCase = serde_json::from_value(case.clone()).map_err(|e| e.to_string())?;
    let mut st = Stats::default();
    let out = replay_case(&c, &mut st);
    if let Some(w) = out.harness_skip {
        return Err(w);
    }
    Ok((out.violations.into_iter().next(), format!("{:016x}", out.log_hash)))
}

// ------------------------------------------------------------------------------------------------
// SOLO world: the real backend alone on trees whose links are indirect (a link to a link, a link
// whose text passes through a link to a directory). Such states are outside the domain in which
// the two backends are compared, so nothing is compared here: what is judged are the clauses of
// C09 that need no second backend - a successful copy leaves the source untouched, a failed
// move_p changes nothing, nothing panics - on the tree seen by the independent disk observer.
// ------------------------------------------------------------------------------------------------

fn canon_virt(sb: &Sandbox, v: &str) -> Option<String> {
    std::fs::canonicalize(sb.real(v)).ok().and_then(|p| sb.virt(&p.to_string_lossy()))
}

/// Physical location of the entry a path names (final component not followed)
fn entry_loc(sb: &Sandbox, v: &str) -> Option<String> {
    let v = crate::refpath::clean(v);
    if v == "/" {
        return Some("/".into());
    }
    let par = canon_virt(sb, &tree::parent(&v)?)?;
    Some(tree::join(&par, tree::base(&v)))
}

fn solo_tree(rng: &mut Rng) -> Tree {
    let pool = ["a", "b", "c", "d", "e"];
    let mut t = Tree::default();
    t.nodes.insert("/".into(), Node::dir(0o40755));
    t.cwd = "/".into();
    let mut dirs = vec!["/".to_string()];
    for _ in 0..rng.range(1, 4) {
        let par = rng.pick(&dirs).clone();
        if tree::depth(&par) >= 2 {
            continue;
        }
        let nm: &str = *rng.pick(&pool[..]);
        let p = tree::join(&par, nm);
        if !t.nodes.contains_key(&p) {
            t.nodes.insert(p.clone(), Node::dir(*rng.pick(&[0o40755, 0o40755, 0o40750, 0o40700])));
            dirs.push(p);
        }
    }
    for _ in 0..rng.range(2, 5) {
        let par = rng.pick(&dirs).clone();
        let nm: &str = *rng.pick(&pool[..]);
        let p = tree::join(&par, nm);
        if !t.nodes.contains_key(&p) {
            let mut n = Node::dir(0);
            n.kind = Kind::File;
            n.mode = *rng.pick(&[0o100644, 0o100644, 0o100600, 0o100640, 0o100755]);
            n.data = Some(Bytes(format!("data of {}", p).into_bytes()));
            t.nodes.insert(p, n);
        }
    }
    let mut counter = 0;
    let mut add_link = |t: &mut Tree, rng: &mut Rng, target: String, link_dir: bool, dirs: &Vec<String>| {
        let par = rng.pick(dirs).clone();
        counter += 1;
        let name = if rng.chance(1, 2) { rng.pick(&pool).to_string() } else { format!("l{}", counter) };
        let p = tree::join(&par, &name);
        if t.nodes.contains_key(&p) || target == p {
            return;
        }
        let rel = crate::refpath::relative(&target, &par);
        t.nodes.insert(p, Node::link(target, rel, link_dir));
    };
    // direct links
    for _ in 0..rng.range(1, 3) {
        let cands: Vec<(String, bool)> = t.nodes.iter().filter(|(k, n)| *k != "/" && n.kind != Kind::Link).map(|(k, n)| (k.clone(), n.kind == Kind::Dir)).collect();
        if cands.is_empty() {
            break;
        }
        let (tg, d) = rng.pick(&cands).clone();
        add_link(&mut t, rng, tg, d, &dirs);
    }
    // indirect links
    for _ in 0..rng.range(1, 3) {
        let links: Vec<(String, Node)> = t.nodes.iter().filter(|(_, n)| n.kind == Kind::Link).map(|(k, n)| (k.clone(), n.clone())).collect();
        if links.is_empty() {
            break;
        }
        let (pl, ln) = rng.pick(&links).clone();
        if rng.chance(1, 2) || !ln.link_dir {
            // a link to a link
            add_link(&mut t, rng, pl, ln.link_dir, &dirs);
        } else {
            // a link whose text passes through a link to a directory
            let tdir = ln.target.clone().unwrap_or_default();
            let kids = t.children(&tdir);
            if kids.is_empty() {
                add_link(&mut t, rng, pl, true, &dirs);
            } else {
                let c = rng.pick(&kids).clone();
                let is_dir = t.nodes[&c].kind == Kind::Dir || t.nodes[&c].link_dir;
                add_link(&mut t, rng, tree::join(&pl, tree::base(&c)), is_dir, &dirs);
            }
        }
    }
    t
}

fn solo_spell(t: &Tree, p: &str, rng: &mut Rng) -> String {
    // the same entry named through a link to one of its ancestor directories
    if rng.chance(1, 4) {
        let cands: Vec<(&String, &Node)> = t
            .nodes
            .iter()
            .filter(|(_, n)| n.kind == Kind::Link && n.link_dir)
            .filter(|(_, n)| n.target.as_deref().map(|tg| tg != p && tg != "/" && is_under(p, tg)).unwrap_or(false))
            .collect();
        if !cands.is_empty() {
            let (lk, ln) = rng.pick(&cands).clone();
            let tg = ln.target.clone().unwrap();
            return format!("{}{}", lk, &p[tg.len()..]);
        }
    }
    p.to_string()
}

fn solo_op(t: &Tree, rng: &mut Rng) -> Option<Op> {
    let all: Vec<String> = t.nodes.keys().filter(|k| *k != "/").cloned().collect();
    if all.is_empty() {
        return None;
    }
    let links: Vec<String> = t.nodes.iter().filter(|(_, n)| n.kind == Kind::Link).map(|(k, _)| k.clone()).collect();
    let dirs: Vec<String> = t.nodes.iter().filter(|(_, n)| n.kind == Kind::Dir).map(|(k, _)| k.clone()).collect();
    let pk = rng.pick(&all[..]).clone();
    let s = solo_spell(t, &pk, rng);
    let d = match rng.below(10) {
        0..=5 if !links.is_empty() => rng.pick(&links).clone(),
        6 | 7 => rng.pick(&all).clone(),
        8 => {
            let dd = rng.pick(&dirs[..]).clone();
            let nn: &str = *rng.pick(&["n1", "n2", "a", "b"][..]);
            tree::join(&dd, nn)
        },
        _ => {
            let pk = rng.pick(&all[..]).clone();
            solo_spell(t, &pk, rng)
        },
    };
    Some(match rng.below(6) {
        0 | 1 => Op::Copy { s, d },
        2 | 3 => {
            let mut calls = vec![];
            if rng.chance(1, 2) {
                calls.push(match rng.below(3) {
                    0 => CopyCall::ChmodAll(*rng.pick(&[0o755, 0o700, 0o775])),
                    1 => CopyCall::ChmodFiles(*rng.pick(&[0o666, 0o600, 0o644])),
                    _ => CopyCall::ChmodDirs(*rng.pick(&[0o755, 0o700, 0o775])),
                });
            }
            Op::CopyB { s, d, calls }
        },
        _ => Op::MoveP { s, d },
    })
}

/// Links are given by their text on disk; the generator wants resolved targets back
fn solo_resolve_targets(sb: &Sandbox, t: &mut Tree) {
    let keys: Vec<String> = t.nodes.keys().cloned().collect();
    for k in keys {
        if t.nodes[&k].kind == Kind::Link {
            let c = canon_virt(sb, &k);
            let n = t.nodes.get_mut(&k).unwrap();
            n.target = c;
        }
    }
}

fn node_delta(a: &Node, b: &Node) -> Option<&'static str> {
    if a.kind != b.kind {
        Some("kind")
    } else if a.data != b.data {
        Some("content")
    } else if a.rel != b.rel {
        Some("target")
    } else if a.kind != Kind::Link && (a.mode & 0o7777) != (b.mode & 0o7777) {
        Some("mode")
    } else {
        None
    }
}

fn solo_link_op(t: &Tree, rng: &mut Rng) -> Option<Op> {
    let all: Vec<String> = t.nodes.keys().filter(|k| *k != "/").cloned().collect();
    if all.is_empty() {
        return None;
    }
    let links: Vec<String> = t.nodes.iter().filter(|(_, n)| n.kind == Kind::Link).map(|(k, _)| k.clone()).collect();
    let dirs: Vec<String> = t.nodes.iter().filter(|(_, n)| n.kind == Kind::Dir).map(|(k, _)| k.clone()).collect();
    let pk = if !links.is_empty() && rng.chance(3, 4) { rng.pick(&links[..]).clone() } else { rng.pick(&all[..]).clone() };
    let spelled = solo_spell(t, &pk, rng);
    Some(match rng.below(20) {
        0 | 1 => Op::IsSymlink { p: spelled },
        2 => Op::IsDir { p: spelled },
        3 => Op::IsFile { p: spelled },
        4 | 5 | 6 => Op::IsSymlinkDir { p: spelled },
        7 | 8 | 9 => Op::IsSymlinkFile { p: spelled },
        10 | 11 => Op::Readlink { p: pk },
        12 | 13 => Op::ReadlinkAbs { p: pk },
        14 | 15 | 16 => Op::Entry { p: spelled },
        17 => {
            // one more level of indirection
            let dd = rng.pick(&dirs[..]).clone();
            let nn: &str = *rng.pick(&["m1", "m2", "a", "b"][..]);
            Op::Symlink { l: tree::join(&dd, nn), t: pk }
        },
        // (the mutating calls go to links only: the question is what happens to the target)
        18 if !links.is_empty() => Op::Remove { p: rng.pick(&links[..]).clone() },
        19 if !links.is_empty() => Op::Chmod { p: rng.pick(&links[..]).clone(), mode: *rng.pick(&[0o700, 0o755, 0o640]) },
        _ => Op::IsSymlink { p: pk },
    })
}

/// What the OS says about a path: (entry exists, is a link, kind when followed: Some(true)=dir,
/// Some(false)=file, None=nothing there), the link text
fn os_facts(real: &str) -> (bool, bool, bool, bool, Option<bool>, Option<String>) {
    let lm = std::fs::symlink_metadata(real).ok();
    let exists = lm.is_some();
    let is_link = lm.as_ref().map(|m| m.file_type().is_symlink()).unwrap_or(false);
    let own_dir = lm.as_ref().map(|m| m.is_dir()).unwrap_or(false);
    let own_file = lm.as_ref().map(|m| m.is_file()).unwrap_or(false);
    let followed = std::fs::metadata(real).ok().map(|m| m.is_dir());
    let text = if is_link { std::fs::read_link(real).ok().map(|t| t.to_string_lossy().into_owned()) } else { None };
    (exists, is_link, own_dir, own_file, followed, text)
}

#[allow(clippy::too_many_arguments)]
fn solo_link_step(prop: &str, sb: &Sandbox, std_: &Stdfs, hs: &mut Handles, before: &Tree, vop: &Op, step: usize, stats: &mut Stats) -> (Outcome, Option<Violation>) {
    let p = match vop.paths().first() {
        Some(p) => p.clone(),
        None => return (Outcome::Skip, None),
    };
    let real = sb.real(&p);
    let (exists, is_link, own_dir, own_file, followed, text) = os_facts(&real);
    // the place the link text leads to, one hop, cleaned, in virtual terms
    let one_hop = text.as_ref().map(|t| {
        let dir = tree::parent(&p).unwrap_or_else(|| "/".into());
        if t.starts_with('/') {
            sb.virt(&crate::refpath::clean(t)).unwrap_or_else(|| crate::refpath::clean(t))
        } else {
            crate::refpath::clean(&format!("{}/{}", dir, t))
        }
    });
    // what a mutating call must leave alone: the entry the link finally leads to
    let final_target = if is_link { canon_virt(sb, &p) } else { None };
    let target_before = final_target.as_ref().and_then(|c| before.nodes.get(c).cloned());
    if crate::TRACE.load(std::sync::atomic::Ordering::Relaxed) {
        use std::io::Write;
        println!("T {}", json!({"label": vop.label(), "op": vop}));
        let _ = std::io::stdout().flush();
    }
    let so = exec::exec(std_, hs, &sb.map_op(vop));
    let _ = exec::ENTRY_MISMATCH.with(|mm| mm.borrow_mut().take());
    let twice = exec::FOLLOW_TWICE.with(|mm| mm.borrow_mut().take());
    let class = format!(
        "{}{}",
        if !exists {
            "missing"
        } else if is_link {
            "link"
        } else if own_dir {
            "dir"
        } else {
            "file"
        },
        match (is_link, followed) {
            (true, Some(true)) => "->dir",
            (true, Some(false)) => "->file",
            (true, None) => "->nothing",
            _ => "",
        }
    );
    stats.triples.insert(format!("solo-links|{}|{}|{}", vop.label(), class, so.class3()));
    stats.bump(&format!("solo.{}.{}", vop.name(), so.class3()));
    let bad = |what: &str, detail: String| -> Option<Violation> {
        Some(Violation {
            property: prop.into(),
            oracle: "stdfs-link-law".into(),
            step,
            sig: format!("solo-link-law|{}|{}|{}", vop.label(), class, what),
            detail: format!("{:?} on Stdfs (path is {}): {}", vop, class, detail),
        })
    };
    let want_bool = |b: bool| -> Option<Violation> {
        if so == Outcome::Ok(Val::Bool(b)) {
            None
        } else {
            bad("answer", format!("got {:?}, the OS says {}", so, b))
        }
    };
    let v = match vop {
        _ if matches!(so, Outcome::Panic(_)) => bad("panic", format!("{:?}", so)),
        Op::IsSymlink { .. } => want_bool(is_link),
        Op::IsDir { .. } => want_bool(own_dir),
        Op::IsFile { .. } => want_bool(own_file),
        Op::IsSymlinkDir { .. } => want_bool(is_link && followed == Some(true)),
        Op::IsSymlinkFile { .. } => want_bool(is_link && followed == Some(false)),
        Op::ReadlinkAbs { .. } => match (&one_hop, &so) {
            (Some(h), Outcome::Ok(Val::Path(got))) => {
                let got_v = sb.virt(got).unwrap_or_else(|| got.clone());
                if got_v == *h {
                    None
                } else {
                    bad("target", format!("readlink_abs gives {} but the link text leads to {}", got_v, h))
                }
            },
            (Some(_), _) => bad("refused", format!("{:?} for a link", so)),
            (None, Outcome::Err(_)) => None,
            (None, _) => bad("non-link-accepted", format!("{:?} for something that is not a link", so)),
        },
        Op::Readlink { .. } => match (&one_hop, &so) {
            (Some(h), Outcome::Ok(Val::Path(got))) => {
                let dir = tree::parent(&p).unwrap_or_else(|| "/".into());
                let joined = if got.starts_with('/') { sb.virt(got).unwrap_or_else(|| got.clone()) } else { crate::refpath::clean(&format!("{}/{}", dir, got)) };
                if joined == *h {
                    None
                } else {
                    bad("target", format!("dir(link)/readlink cleans to {} but the link text leads to {}", joined, h))
                }
            },
            (Some(_), _) => bad("refused", format!("{:?} for a link", so)),
            (None, Outcome::Err(_)) => None,
            (None, _) => bad("non-link-accepted", format!("{:?} for something that is not a link", so)),
        },
        Op::Entry { .. } => match &so {
            Outcome::Ok(Val::EntryF(v0, v1, _v2, v3)) => {
                if let Some(t) = twice {
                    bad("follow-twice", t)
                } else if v0.link != is_link || v0.symlink_dir != (is_link && followed == Some(true)) || v0.symlink_file != (is_link && followed == Some(false)) {
                    bad("entry-kind", format!("entry says link={} symlink_dir={} symlink_file={}, the OS says link={} followed={:?}", v0.link, v0.symlink_dir, v0.symlink_file, is_link, followed))
                } else if !is_link && (v0.dir != own_dir || v0.file != own_file) {
                    bad("entry-kind", format!("entry says dir={} file={}, the OS says dir={} file={}", v0.dir, v0.file, own_dir, own_file))
                } else if is_link && !(v1.path == v0.alt && v1.alt == v0.path && v1.following) {
                    bad("follow-swap", format!("before {:?} after follow(true) {:?}", v0, v1))
                } else if v3 != v1 {
                    bad("follow-swap", format!("follow(true) {:?} but after follow(false), follow(true) {:?}", v1, v3))
                } else {
                    None
                }
            },
            Outcome::Err(_) if !exists => None,
            other => {
                if exists {
                    bad("refused", format!("{:?} for an existing entry", other))
                } else {
                    bad("missing-accepted", format!("{:?} for nothing", other))
                }
            },
        },
        Op::Remove { .. } | Op::Chmod { .. } => {
            // acts on the link itself, never on what it leads to
            let after = disk_tree(sb).ok();
            match (&final_target, &target_before, &after) {
                (Some(c), Some(b), Some(a)) if is_link && so.is_ok() => match a.nodes.get(c) {
                    None => bad("target-touched", format!("{} (what the link led to) is gone", c)),
                    Some(n) => match node_delta(b, n) {
                        Some(w) => bad("target-touched", format!("{} (what the link led to) changed: {}", c, w)),
                        None => {
                            if matches!(vop, Op::Remove { .. }) && a.nodes.contains_key(&p) {
                                bad("link-still-there", "remove reported success".into())
                            } else {
                                None
                            }
                        },
                    },
                },
                _ => None,
            }
        },
        _ => None,
    };
    (so, v)
}

pub fn run_solo(prop: &str, sb: &Sandbox, pre: &Tree, mut src: Src, stats: &mut Stats, known: &dyn Fn(&Violation) -> bool) -> DiffOut {
    let mut out = DiffOut { ops: vec![], violations: vec![], log_hash: 0, harness_skip: None };
    if let Err(e) = sb.fresh() {
        out.harness_skip = Some(format!("sandbox: {}", e));
        return out;
    }
    seq::set_env(&Env::new());
    let std_ = Stdfs::new();
    let finish = |out: DiffOut| -> DiffOut {
        let _ = std::env::set_current_dir("/");
        out
    };
    if let Err(e) = materialise_disk(sb, pre) {
        out.harness_skip = Some(format!("materialise disk: {}", e));
        return finish(out);
    }
    if std::env::set_current_dir(sb.real("/")).is_err() {
        out.harness_skip = Some("cwd".into());
        return finish(out);
    }
    stats.runs += 1;
    let mut hs = Handles::default();
    let total = match &src {
        Src::Gen { len, .. } => *len,
        Src::Replay(o) => o.len(),
    };
    for i in 0..total {
        let mut before = match disk_tree(sb) {
            Ok(t) => t,
            Err(e) => {
                out.harness_skip = Some(e);
                break;
            },
        };
        solo_resolve_targets(sb, &mut before);
        let vop = match &mut src {
            Src::Gen { rng, .. } => {
                let o = if prop == "C10" { solo_link_op(&before, rng) } else { solo_op(&before, rng) };
                match o {
                    Some(o) => o,
                    None => break,
                }
            },
            Src::Replay(o) => o[i].clone(),
        };
        if prop == "C10" {
            // link laws on the real backend alone, judged by what the OS says about the same path
            let (so, v) = solo_link_step(prop, sb, &std_, &mut hs, &before, &vop, out.ops.len(), stats);
            out.ops.push(vop.clone());
            stats.steps += 1;
            out.log_hash = hash_bytes(out.log_hash, format!("{:?}{}", vop, so.class3()).as_bytes());
            if let Some(v) = v {
                if known(&v) {
                    *stats.known_hits.entry(v.sig.clone()).or_insert(0) += 1;
                    stats.runs_ended_by_known += 1;
                } else {
                    out.violations.push(v);
                }
                break;
            }
            continue;
        }
        let (s, d) = match &vop {
            Op::Copy { s, d } | Op::CopyB { s, d, .. } | Op::MoveP { s, d } => (s.clone(), d.clone()),
            _ => continue,
        };
        let s_loc = match entry_loc(sb, &s) {
            Some(x) if x != "/" => x,
            _ => continue,
        };
        // candidate destination roots: the entry dst names, and dst/<name> when dst leads to a directory
        let mut roots = vec![];
        if let Some(x) = entry_loc(sb, &d) {
            roots.push(x);
        }
        if let Some(c) = canon_virt(sb, &d) {
            if before.nodes.get(&c).map(|n| n.kind == Kind::Dir).unwrap_or(false) {
                roots.push(tree::join(&c, tree::base(&s_loc)));
                // a destination that is a link to a directory: the copy may merge into that directory
                if !roots.contains(&c) {
                    roots.push(c);
                }
            }
        }
        if roots.is_empty() {
            continue;
        }
        let overlap = roots.iter().any(|r| is_under(r, &s_loc) || is_under(&s_loc, r));
        // pre-existing destination links that lead somewhere else than the entry they face: a
        // copy written through them may legitimately land anywhere they lead, incl. the source
        let mut through: Vec<String> = vec![];
        for r in &roots {
            for k in before.subtree(r) {
                let n = &before.nodes[&k];
                if n.kind == Kind::Link {
                    let facing = format!("{}{}", s_loc, &k[r.len()..]);
                    if let Some(c) = n.target.clone() {
                        if c != facing {
                            through.push(c);
                        }
                    }
                }
            }
        }
        let dst_class = {
            let dk = entry_loc(sb, &d).and_then(|x| before.nodes.get(&x).map(|n| n.kind));
            match dk {
                Some(Kind::Link) => {
                    if canon_virt(sb, &d) == canon_virt(sb, &s) {
                        "dst=link-back-to-source"
                    } else {
                        "dst=link"
                    }
                },
                Some(Kind::Dir) => "dst=dir",
                Some(Kind::File) => "dst=file",
                None => "dst=missing",
            }
        };
        let src_class = match before.nodes.get(&s_loc).map(|n| n.kind) {
            Some(Kind::Link) => "src=link",
            Some(Kind::Dir) => "src=dir",
            Some(Kind::File) => "src=file",
            None => "src=missing",
        };
        if crate::TRACE.load(std::sync::atomic::Ordering::Relaxed) {
            use std::io::Write;
            println!("T {}", json!({"label": vop.label(), "op": vop}));
            let _ = std::io::stdout().flush();
        }
        let rop = sb.map_op(&vop);
        let so = exec::exec(&std_, &mut hs, &rop);
        out.ops.push(vop.clone());
        stats.steps += 1;
        let step = out.ops.len() - 1;
        let after = match disk_tree(sb) {
            Ok(t) => t,
            Err(e) => {
                out.harness_skip = Some(e);
                break;
            },
        };
        let mut v: Option<Violation> = None;
        if let Outcome::Panic(m) = &so {
            v = Some(Violation {
                property: prop.into(),
                oracle: "panic".into(),
                step,
                sig: format!("solo-panic|{}|{},{}", vop.label(), src_class, dst_class),
                detail: format!("{:?} panicked on Stdfs: {}", vop, m),
            });
        } else if matches!(vop, Op::MoveP { .. }) && so.is_err() {
            let ds = tree::diff(&before, &after, CMP);
            if !ds.is_empty() {
                v = Some(Violation {
                    property: prop.into(),
                    oracle: "failed-move-changed-the-tree".into(),
                    step,
                    sig: format!("solo-failed-move|{},{}", src_class, dst_class),
                    detail: format!("{:?} failed with {:?} on Stdfs but the disk changed: {:?}", vop, so, ds.iter().take(4).collect::<Vec<_>>()),
                });
            }
        } else if matches!(vop, Op::Copy { .. } | Op::CopyB { .. }) && so.is_ok() && !overlap {
            for k in before.subtree(&s_loc) {
                if through.iter().any(|c| is_under(&k, c)) {
                    stats.bump("solo.source_entries_exempt_written_through_a_destination_link");
                    continue;
                }
                let b = &before.nodes[&k];
                let delta = match after.nodes.get(&k) {
                    None => Some("missing"),
                    Some(a) => node_delta(b, a),
                };
                if let Some(what) = delta {
                    v = Some(Violation {
                        property: prop.into(),
                        oracle: "copy-changed-its-source".into(),
                        step,
                        sig: format!("solo-source-changed|{}|{},{}|{}", vop.label(), src_class, dst_class, what),
                        detail: format!("{:?} succeeded on Stdfs but source entry {} changed ({}): before {:?} after {:?}", vop, k, what, b, after.nodes.get(&k)),
                    });
                    break;
                }
            }
            stats.bump("solo.copies_judged");
        }
        stats.bump(&format!("solo.{}.{}", vop.name(), so.class3()));
        stats.triples.insert(format!("solo|{}|{},{}|{}", vop.label(), src_class, dst_class, so.class3()));
        out.log_hash = hash_bytes(out.log_hash, format!("{:?}{}", vop, so.class3()).as_bytes());
        out.log_hash = hash_bytes(out.log_hash, &after.full_hash().to_le_bytes());
        if let Some(v) = v {
            if known(&v) {
                *stats.known_hits.entry(v.sig.clone()).or_insert(0) += 1;
                stats.runs_ended_by_known += 1;
            } else {
                out.violations.push(v);
            }
            break;
        }
    }
    hs.clear();
    finish(out)
}

pub fn solo_index(id: &str, tier: &str, seed: u64, idx: u64, stats: &mut Stats, known: &dyn Fn(&Violation) -> bool) -> Option<Finding> {
    drop_privileges_once();
    let rs = mix(&[seed, hash_str(id), hash_str(tier), hash_str("solo"), idx]);
    let mut rng = Rng::new(rs);
    let pre = solo_tree(&mut rng);
    let len = rng.range(1, 3);
    let mut gen = Gen::new(profile(), format!("{}", idx), &mut Rng::new(rs ^ 1));
    let out = SANDBOX.with(|sb| {
        let o = run_solo(id, sb, &pre, Src::Gen { gen: &mut gen, rng: &mut rng, len }, stats, known);
        sb.cleanup();
        o
    });
    if let Some(why) = &out.harness_skip {
        stats.bump("HARNESS.solo_run_skipped");
        if std::env::var("RVSIM_DEBUG").is_ok() {
            eprintln!("note: SOLO run {} skipped: {} after {:?}", idx, why, out.ops);
        }
        return None;
    }
    stats.distinct_cases.insert(out.log_hash);
    stats.bump("stdfs_solo_runs");
    let v = out.violations.into_iter().next()?;
    let mut case = DiffCase {
        format: 1,
        property: id.into(),
        world: "SOLO".into(),
        seed,
        run: idx,
        knobs: Knobs::default(),
        env: Env::new(),
        tree: pre,
        ops: out.ops,
        expect: Some(seq::ExpectSig { sig: v.sig.clone(), step: v.step }),
        log_hash: format!("{:016x}", out.log_hash),
        what: v.detail.clone(),
    };
    let still = |c: &DiffCase| -> bool {
        let mut st = Stats::default();
        SANDBOX.with(|sb| {
            let o = run_solo(&c.property, sb, &c.tree, Src::Replay(&c.ops), &mut st, &|_| false);
            sb.cleanup();
            o.violations.first().map(|x| x.sig == v.sig).unwrap_or(false)
        })
    };
    // minimise: operations before the failing one, then entries of the pre-state
    case.ops.truncate(v.step + 1);
    let mut i = 0;
    while i + 1 < case.ops.len() {
        let mut c2 = case.clone();
        c2.ops.remove(i);
        if still(&c2) {
            case = c2;
        } else {
            i += 1;
        }
    }
    let keys: Vec<String> = case.tree.nodes.keys().rev().cloned().collect();
    for k in keys {
        if k == "/" || case.tree.nodes.keys().any(|o| o != &k && is_under(o, &k)) {
            continue;
        }
        let mut c2 = case.clone();
        c2.tree.nodes.remove(&k);
        if still(&c2) {
            case = c2;
        }
    }
    case.expect = Some(seq::ExpectSig { sig: v.sig.clone(), step: case.ops.len().saturating_sub(1) });
    Some(Finding { violation: v, case: serde_json::to_value(&case).unwrap() })
}

pub fn replay_solo(case: &serde_json::Value) -> Result<(Option<Violation>, String), String> {
    drop_privileges_once();
    let c: DiffCase = serde_json::from_value(case.clone()).map_err(|e| e.to_string())?;
    let mut st = Stats::default();
    let out = SANDBOX.with(|sb| {
        let o = run_solo(&c.property, sb, &c.tree, Src::Replay(&c.ops), &mut st, &|_| false);
        sb.cleanup();
        o
    });
    if let Some(w) = out.harness_skip {
        return Err(w);
    }
    Ok((out.violations.into_iter().next(), format!("{:016x}", out.log_hash)))
}
