//! ENV world: the process environment is the seam. Each run installs its own environment table
//! in the (single-threaded) worker process, including the faulty ones - unset HOME, empty XDG
//! variables, lists with empty segments, non-numeric sudo ids - and judges expansions (C17) and
//! XDG / sudo lookups (C18) against reference evaluators written from the statements.
//! Also hosts the C20 configuration (assert macros as operations of the SEQ world).
use rivia::prelude::*;
use serde::{Deserialize, Serialize};
use serde_json::json;

use crate::{
    diffw::Sandbox,
    exec::{self, Handles},
    gen::{cat, Profile},
    ops::*,
    prng::{hash_bytes, hash_str, mix, Rng},
    refpath::{self, Env},
    report::{Stats, Violation},
    seq::{self, PropCfg, Strict},
    supervisor::Finding,
    tree::Cmp,
};

#[derive(Clone, Debug, Serialize, Deserialize)]
pub struct EnvCase {
    pub format: u32,
    pub property: String,
    pub world: String,
    pub seed: u64,
    pub run: u64,
    pub env: Env,
    /// Memfs paths that exist (virtual); for the Stdfs leg they are created below the sandbox
    pub present: Vec<String>,
    pub stdfs_leg: bool,
    pub ops: Vec<Op>,
    pub expect: Option<seq::ExpectSig>,
    #[serde(default)]
    pub what: String,
}

fn var_class(env: &Env, k: &str) -> String {
    match env.get(k) {
        None => "unset".into(),
        Some(v) if v.is_empty() => "empty".into(),
        Some(v) if v.contains(':') => {
            if v.split(':').any(|s| s.is_empty()) {
                "list-with-empty-segments".into()
            } else {
                "list".into()
            }
        },
        Some(v) if v.starts_with('/') => "absolute".into(),
        Some(v) if v.contains('/') => "with-separator".into(),
        Some(v) if v.contains('~') || v.contains('$') => "with-special".into(),
        Some(v) if v.chars().all(|c| c.is_ascii_digit()) => "numeric".into(),
        Some(_) => "plain".into(),
    }
}

/// lexical normalisation the way std::path::Components sees a unix path (no `..` resolution)
fn norm(p: &str) -> String {
    let rooted = p.starts_with('/');
    let mut v = vec![];
    for (i, c) in p.split('/').enumerate() {
        if c.is_empty() || (c == "." && !(i == 0 && !rooted)) {
            continue;
        }
        v.push(c);
    }
    let body = v.join("/");
    if rooted {
        format!("/{}", body)
    } else {
        body
    }
}

/// Reference for `expand` per the statement. Returns the set of acceptable results.
fn ref_expand(t: &str, env: &Env) -> Result<Vec<String>, ()> {
    let tildes = t.matches('~').count();
    if tildes > 1 {
        return Err(());
    }
    let mut heads: Vec<String> = vec![];
    let rest: String;
    if tildes == 1 {
        if t == "~" {
            let h = env.get("HOME").ok_or(())?;
            return Ok(vec![h.clone()]);
        } else if let Some(r) = t.strip_prefix("~/") {
            let h = env.get("HOME").ok_or(())?.clone();
            // empty HOME: "~/x" is "/x" read literally, "x" when joined as a path; both accepted
            heads.push(format!("{}/", h));
            if h.is_empty() {
                heads.push(String::new());
            }
            rest = r.to_string();
        } else {
            return Err(());
        }
    } else {
        heads.push(String::new());
        rest = t.to_string();
    }
    // variables
    let mut outs = vec![];
    for head in heads {
        let full = format!("{}{}", head, rest);
        if !full.contains('$') {
            outs.push(if tildes == 1 { norm(&full) } else { full.clone() });
            if tildes == 1 {
                outs.push(full);
            }
            continue;
        }
        let chars: Vec<char> = full.chars().collect();
        let mut i = 0;
        let mut textual = String::new();
        // second reading: a value that is an absolute path starts over (path join semantics)
        let mut joined = String::new();
        let mut comp_start = true;
        while i < chars.len() {
            let c = chars[i];
            if c != '$' {
                textual.push(c);
                joined.push(c);
                comp_start = c == '/';
                i += 1;
                continue;
            }
            i += 1;
            if i < chars.len() && chars[i] == '{' {
                i += 1;
            }
            let mut name = String::new();
            while i < chars.len() && chars[i] != '$' && chars[i] != '}' && chars[i] != '/' {
                name.push(chars[i]);
                i += 1;
            }
            if i < chars.len() && chars[i] == '}' {
                i += 1;
            }
            if name.is_empty() {
                return Err(());
            }
            let val = env.get(&name).ok_or(())?;
            textual.push_str(val);
            if comp_start && val.starts_with('/') {
                joined = val.clone();
            } else {
                joined.push_str(val);
            }
            comp_start = false;
        }
        outs.push(norm(&textual));
        outs.push(norm(&joined));
        // third reading: component by component, the way a path is assembled: a component that
        // expands to nothing vanishes, one that expands to an absolute path starts over
        {
            let rooted = full.starts_with('/');
            let mut acc: Vec<String> = vec![];
            let mut is_rooted = rooted;
            let mut failed = false;
            for comp in full.split('/') {
                if comp.is_empty() {
                    continue;
                }
                let mut one = Env::new();
                one.extend(env.clone());
                let ex = if comp.contains('$') {
                    // reuse the textual reading on a single component
                    let cc: Vec<char> = comp.chars().collect();
                    let mut j = 0;
                    let mut o = String::new();
                    while j < cc.len() {
                        if cc[j] != '$' {
                            o.push(cc[j]);
                            j += 1;
                            continue;
                        }
                        j += 1;
                        if j < cc.len() && cc[j] == '{' {
                            j += 1;
                        }
                        let mut name = String::new();
                        while j < cc.len() && cc[j] != '$' && cc[j] != '}' {
                            name.push(cc[j]);
                            j += 1;
                        }
                        if j < cc.len() && cc[j] == '}' {
                            j += 1;
                        }
                        match one.get(&name) {
                            Some(v) if !name.is_empty() => o.push_str(v),
                            _ => {
                                failed = true;
                                break;
                            },
                        }
                    }
                    o
                } else {
                    comp.to_string()
                };
                if failed {
                    break;
                }
                if ex.starts_with('/') {
                    acc.clear();
                    is_rooted = true;
                }
                for part in ex.split('/') {
                    if !part.is_empty() {
                        acc.push(part.to_string());
                    }
                }
            }
            if !failed {
                let body = acc.join("/");
                outs.push(if is_rooted { format!("/{}", body) } else { body });
            }
        }
    }
    outs.sort();
    outs.dedup();
    Ok(outs)
}

// (the last two are never set: a name is looked up as it is spelled)
const TVARS: &[&str] = &["HOME", "RV_A", "RV_B", "RV_UNSET", "home", "rv_a"];

fn c17_env(rng: &mut Rng) -> Env {
    let mut env = Env::new();
    // a bystander whose value is not UTF-8: no template names it, none may be affected by it
    if rng.chance(1, 5) {
        env.insert("RV_BIN".into(), "<non-utf8>".into());
    }
    for k in ["HOME", "RV_A", "RV_B"] {
        // (HOME never holds a '$': whether the home directory's own text is expanded again is
        // not something the statement decides)
        let v = match rng.weighted(&[2, 2, 4, 3, 3, if k == "HOME" { 0 } else { 1 }]) {
            0 => None,
            1 => Some(String::new()),
            2 => Some(rng.pick(&["val", "x.y", "日本", "a b"]).to_string()),
            3 => Some(rng.pick(&["x/y", "p/q/r", "é/ü"]).to_string()),
            4 => Some(rng.pick(&["/home/u", "/", "/a/b/", "/x"]).to_string()),
            _ => Some(rng.pick(&["~", "a~b", "$RV_A", "p$q"]).to_string()),
        };
        if let Some(v) = v {
            env.insert(k.to_string(), v);
        }
    }
    env
}

fn c17_template(rng: &mut Rng) -> String {
    let mut s = String::new();
    match rng.weighted(&[3, 3, 2, 1, 1, 4]) {
        0 => s.push_str("~/"),
        1 => s.push('/'),
        2 => {
            if rng.chance(1, 2) {
                return "~".into();
            }
        },
        3 => s.push_str("~x/"),
        4 => s.push_str("./"),
        _ => {},
    }
    let n = rng.range(1, 4);
    for i in 0..n {
        if i > 0 {
            s.push('/');
        }
        let v = *rng.pick(TVARS);
        let lit = *rng.pick(&["a", "b.c", "d e", "é", "zz"]);
        let v2 = *rng.pick(TVARS);
        let piece = match rng.weighted(&[8, 5, 5, 3, 3, 2, 2, 1, 1, 1, 1]) {
            0 => lit.to_string(),
            1 => format!("${}", v),
            2 => format!("${{{}}}", v),
            3 => format!("{}${{{}}}", lit, v),
            4 => format!("${{{}}}{}", v, lit),
            5 => format!("${}${}", v, v2),
            6 => format!("${{{}}}${{{}}}", v, v2),
            7 => {
                if rng.chance(1, 2) {
                    "$".to_string()
                } else {
                    // three variable tokens in one component, braced and unbraced mixed
                    match rng.below(3) {
                        0 => format!("${{{}}}${}${}", v, v2, v),
                        1 => format!("${{{}}}-${}${{{}}}.log", v, v2, v),
                        _ => format!("{}${}${{{}}}${}${}", lit, v2, v, v2, v),
                    }
                }
            },
            8 => "${}".to_string(),
            9 => format!("{}$", lit),
            _ => "~".to_string(),
        };
        s.push_str(&piece);
    }
    if rng.chance(1, 8) {
        s.push('/');
    }
    s
}

fn c17_run(seed: u64, idx: u64, stats: &mut Stats, replay: Option<&EnvCase>) -> (EnvCase, Vec<Violation>) {
    let mut rng = Rng::new(mix(&[seed, hash_str("C17"), idx]));
    let (env, ops): (Env, Vec<Op>) = match replay {
        Some(c) => (c.env.clone(), c.ops.clone()),
        None => {
            let env = c17_env(&mut rng);
            let n = rng.range(4, 16);
            let ops = (0..n)
                .map(|_| {
                    let t = c17_template(&mut rng);
                    if rng.chance(1, 3) {
                        Op::Abs { p: t }
                    } else {
                        Op::Expand { p: t }
                    }
                })
                .collect();
            (env, ops)
        },
    };
    seq::set_env(&env);
    let mem = Memfs::new();
    let mut hs = Handles::default();
    let mut viol = vec![];
    stats.runs += 1;
    for (step, op) in ops.iter().enumerate() {
        let t = match op {
            Op::Abs { p } | Op::Expand { p } => p.clone(),
            _ => continue,
        };
        let is_abs = matches!(op, Op::Abs { .. });
        let out = exec::exec(&mem, &mut hs, op);
        stats.steps += 1;
        // "through abs() of both backends": with the same cwd the two must give the same answer
        if is_abs {
            let cwd = std::env::current_dir().map(|c| c.to_string_lossy().into_owned()).unwrap_or_default();
            if cwd.starts_with('/') && mem.set_cwd(&cwd).is_err() {
                let _ = mem.mkdir_p(&cwd);
                let _ = mem.set_cwd(&cwd);
            }
            let mo = exec::exec(&mem, &mut hs, op);
            let so = exec::exec(&Stdfs::new(), &mut hs, op);
            let _ = mem.set_cwd("/");
            stats.bump("abs_compared_on_both_backends");
            let same = match (&mo, &so) {
                (Outcome::Err(_), Outcome::Err(_)) => true,
                (a, b) => a == b,
            };
            if !same {
                viol.push(Violation {
                    property: "C17".into(),
                    oracle: "abs-both-backends".into(),
                    step,
                    sig: format!("abs-backends|{} vs {}", mo.class3(), so.class3()),
                    detail: format!("{:?} in env {:?} with cwd {}: Memfs {:?} but Stdfs {:?}", op, env, cwd, mo, so),
                });
                break;
            }
        }
        let vars: Vec<String> = TVARS.iter().filter(|v| t.contains(*v)).map(|v| format!("{}={}", v, var_class(&env, v))).collect();
        let shape = t.replace(|c: char| c.is_alphanumeric() || c == ' ' || c == '.', "").chars().take(12).collect::<String>();
        let class = format!("{}|{}|{}", if is_abs { "abs" } else { "expand" }, shape, vars.join(","));
        let expected: Result<Vec<String>, ()> = if t.is_empty() {
            Err(())
        } else if is_abs {
            // abs = expand, then protocol trimming / clean / cwd join by the reference resolver
            ref_expand(&t, &env).and_then(|alts| {
                let v: Vec<String> = alts
                    .iter()
                    .filter_map(|a| {
                        let tp = refpath::trim_protocol(a);
                        let c = refpath::clean(&tp);
                        if c.starts_with('/') {
                            Some(c)
                        } else if c.starts_with("..") {
                            None
                        } else if c == "." {
                            Some("/".into())
                        } else {
                            Some(format!("/{}", c))
                        }
                    })
                    .collect();
                if v.is_empty() {
                    Err(())
                } else {
                    Ok(v)
                }
            })
        } else {
            ref_expand(&t, &env)
        };
        let ok = match (&expected, &out) {
            (Err(()), Outcome::Err(_)) => true,
            (Ok(alts), Outcome::Ok(Val::Path(p))) => {
                if is_abs {
                    alts.contains(p)
                } else if !t.contains('~') && !t.contains('$') {
                    *p == t
                } else {
                    alts.contains(p) || alts.contains(&norm(p))
                }
            },
            // abs of a relative result that climbs above the root may fail
            (Ok(_), Outcome::Err(k)) if is_abs && k == "Path::ParentNotFound" => true,
            _ => false,
        };
        let triple = format!("{}|{}", class, out.class3());
        if vars.is_empty() && !t.contains('~') {
            stats.trivial_triples.insert(triple);
        } else {
            stats.triples.insert(triple);
        }
        for v in &vars {
            stats.bump(&format!("fault.F10_env.{}", v));
        }
        if !ok {
            viol.push(Violation {
                property: "C17".into(),
                oracle: "reference-expander".into(),
                step,
                sig: format!("expand|{}|exp={} got={}", class, if expected.is_ok() { "Ok" } else { "Err" }, out.class3()),
                detail: format!("{:?} in env {:?}: got {:?}, acceptable {:?}", op, env, out, expected),
            });
            break;
        }
    }
    let case = EnvCase {
        format: 1,
        property: "C17".into(),
        world: "ENV".into(),
        seed,
        run: idx,
        env,
        present: vec![],
        stdfs_leg: false,
        ops,
        expect: viol.first().map(|v| seq::ExpectSig { sig: v.sig.clone(), step: v.step }),
        what: viol.first().map(|v| v.detail.clone()).unwrap_or_default(),
    };
    (case, viol)
}

const XDG: &[&str] = &[
    "HOME",
    "XDG_CONFIG_HOME",
    "XDG_CONFIG_DIRS",
    "XDG_DATA_HOME",
    "XDG_DATA_DIRS",
    "XDG_CACHE_HOME",
    "XDG_STATE_HOME",
    "XDG_RUNTIME_DIR",
    "PATH",
    "SUDO_UID",
    "SUDO_GID",
    // not an XDG variable: the statement's "runtime_dir falls back to /tmp" holds whatever it says
    "TMPDIR",
];

fn c18_env(rng: &mut Rng) -> Env {
    let mut env = Env::new();
    // (two spellings that are not clean: a candidate directory is a path like any other)
    let dirs = ["/cfg/a", "/cfg/b", "/cfg/c", "/etc/xdg", "/h/.config", "/opt/x", "/cfg/x/../a", "/cfg//c/", "/cfg/m\u{fc}ller", "/\u{65e5}\u{672c}/cfg"];
    for k in XDG {
        let v: Option<String> = if k.starts_with("SUDO") {
            match rng.weighted(&[3, 1, 4, 2]) {
                0 => None,
                1 => Some(String::new()),
                2 => Some(format!("{}", rng.below(3000))),
                _ => Some(rng.pick(&["users", "12a", "-1", "99999999999", " 7"]).to_string()),
            }
        } else if k.ends_with("DIRS") || *k == "PATH" {
            match rng.weighted(&[3, 2, 3, 4, 3]) {
                0 => None,
                1 => Some(rng.pick(&["", ":", "::"]).to_string()),
                2 => Some(rng.pick(&dirs).to_string()),
                3 => Some(format!("{}:{}:{}", rng.pick(&dirs), rng.pick(&dirs), rng.pick(&dirs))),
                _ => Some(format!("{}::{}:", rng.pick(&dirs), rng.pick(&dirs))),
            }
        } else if *k == "HOME" {
            match rng.weighted(&[2, 1, 6]) {
                0 => None,
                1 => Some(String::new()),
                _ => Some(rng.pick(&["/h", "/home/u", "/"]).to_string()),
            }
        } else {
            match rng.weighted(&[4, 2, 5, if *k == "XDG_CONFIG_HOME" || *k == "TMPDIR" { 0 } else { 1 }]) {
                0 => None,
                1 => Some(String::new()),
                2 => Some(rng.pick(&dirs).to_string()),
                // a relative value is a value like any other: returned as it is
                _ => Some(rng.pick(&["rel/data", "x"]).to_string()),
            }
        };
        if let Some(v) = v {
            env.insert(k.to_string(), v);
        }
    }
    env
}

fn list_of(v: Option<&String>, default: &[&str]) -> Vec<String> {
    match v {
        Some(x) => {
            let l: Vec<String> = x.split(':').filter(|s| !s.is_empty()).map(|s| s.to_string()).collect();
            if l.is_empty() {
                default.iter().map(|s| s.to_string()).collect()
            } else {
                l
            }
        },
        None => default.iter().map(|s| s.to_string()).collect(),
    }
}

/// acceptable outcomes of a user-directory lookup
fn ref_user_dir(which: &str, env: &Env) -> Vec<Outcome> {
    let home = env.get("HOME");
    let under_home = |parts: &[&str]| -> Vec<Outcome> {
        match home {
            None => vec![Outcome::Err("any".into())],
            Some(h) => {
                let mut p = h.clone();
                for x in parts {
                    p = refpath::mash(&p, x);
                }
                vec![Outcome::Ok(Val::Path(p))]
            },
        }
    };
    let xdg_home = |var: &str, parts: &[&str]| -> Vec<Outcome> {
        match env.get(var) {
            // set but empty: "the value when set" or "the default" - both readings accepted
            Some(v) if v.is_empty() => {
                let mut o = vec![Outcome::Ok(Val::Path(String::new()))];
                o.extend(under_home(parts));
                o
            },
            Some(v) => vec![Outcome::Ok(Val::Path(v.clone()))],
            None => under_home(parts),
        }
    };
    match which {
        "home" => match home {
            Some(h) => vec![Outcome::Ok(Val::Path(h.clone()))],
            None => vec![Outcome::Err("any".into())],
        },
        "config" => xdg_home("XDG_CONFIG_HOME", &[".config"]),
        "cache" => xdg_home("XDG_CACHE_HOME", &[".cache"]),
        "data" => xdg_home("XDG_DATA_HOME", &[".local", "share"]),
        "state" => xdg_home("XDG_STATE_HOME", &[".local", "state"]),
        "runtime" => match env.get("XDG_RUNTIME_DIR") {
            Some(v) if v.is_empty() => vec![Outcome::Ok(Val::Path(String::new())), Outcome::Ok(Val::Path("/tmp".into()))],
            Some(v) => vec![Outcome::Ok(Val::Path(v.clone()))],
            None => vec![Outcome::Ok(Val::Path("/tmp".into()))],
        },
        "sys_config" => vec![Outcome::Ok(Val::Paths(list_of(env.get("XDG_CONFIG_DIRS"), &["/etc/xdg"])))],
        "sys_data" => vec![Outcome::Ok(Val::Paths(list_of(env.get("XDG_DATA_DIRS"), &["/usr/local/share", "/usr/share"])))],
        "path" => match env.get("PATH") {
            None => vec![Outcome::Err("any".into())],
            Some(v) => vec![Outcome::Ok(Val::Paths(v.split(':').filter(|s| !s.is_empty()).map(|s| s.to_string()).collect()))],
        },
        _ => vec![],
    }
}

fn numeric(s: &str) -> Option<u32> {
    if !s.is_empty() && s.chars().all(|c| c.is_ascii_digit()) {
        s.parse::<u32>().ok()
    } else {
        None
    }
}

fn ref_config_dir(name: &str, env: &Env, present: &[String]) -> Vec<Option<String>> {
    let firsts: Vec<Option<String>> = match env.get("XDG_CONFIG_HOME") {
        Some(v) if v.is_empty() => vec![Some(String::new()), env.get("HOME").map(|h| refpath::mash(h, ".config"))],
        Some(v) => vec![Some(v.clone())],
        None => vec![env.get("HOME").map(|h| refpath::mash(h, ".config"))],
    };
    let sys = list_of(env.get("XDG_CONFIG_DIRS"), &["/etc/xdg"]);
    let has = |d: &str| -> bool {
        if d.is_empty() {
            return false;
        }
        let cand = refpath::mash(d, name);
        match refpath::abs(&cand, "/", env) {
            Ok(a) => present.contains(&a),
            Err(_) => false,
        }
    };
    let mut outs = vec![];
    for first in firsts {
        let mut dirs: Vec<String> = vec![];
        match &first {
            Some(f) => dirs.push(f.clone()),
            None => {
                // no user directory can be determined: searching the system list only, or giving
                // up, are both accepted
                outs.push(None);
            },
        }
        dirs.extend(sys.clone());
        outs.push(dirs.into_iter().find(|d| has(d)));
    }
    outs.sort();
    outs.dedup();
    outs
}

fn c18_run(seed: u64, idx: u64, stats: &mut Stats, replay: Option<&EnvCase>) -> (EnvCase, Vec<Violation>) {
    let mut rng = Rng::new(mix(&[seed, hash_str("C18"), idx]));
    let names = ["app.toml", "rc", "x/y.conf"];
    let (env, present, stdfs_leg, ops): (Env, Vec<String>, bool, Vec<Op>) = match replay {
        Some(c) => (c.env.clone(), c.present.clone(), c.stdfs_leg, c.ops.clone()),
        None => {
            let env = c18_env(&mut rng);
            // which candidate directories contain which file
            let mut present = vec![];
            let mut cands: Vec<String> = vec![];
            if let Some(v) = env.get("XDG_CONFIG_HOME") {
                cands.push(v.clone());
            }
            if let Some(h) = env.get("HOME") {
                cands.push(refpath::mash(h, ".config"));
            }
            cands.extend(list_of(env.get("XDG_CONFIG_DIRS"), &["/etc/xdg"]));
            for c in &cands {
                for n in names {
                    if c.starts_with('/') && rng.chance(1, 3) {
                        present.push(refpath::clean(&refpath::mash(c, n)));
                    }
                }
            }
            present.sort();
            present.dedup();
            let mut ops = vec![];
            for w in ["home", "config", "cache", "data", "state", "runtime", "sys_config", "sys_data", "path"] {
                if rng.chance(2, 3) {
                    ops.push(Op::UserDir { which: w.into() });
                }
            }
            for _ in 0..rng.range(1, 3) {
                ops.push(Op::Getrids { uid: *rng.pick(&[0u32, 0, 1000, 5]), gid: *rng.pick(&[0u32, 100, 1000]) });
            }
            for n in names {
                ops.push(Op::ConfigDir { name: n.into() });
            }
            // the Stdfs leg needs every searched directory inside the sandbox: no built-in defaults
            let sandboxable = env.get("XDG_CONFIG_DIRS").map(|v| v.split(':').any(|s| !s.is_empty())).unwrap_or(false)
                && (env.get("XDG_CONFIG_HOME").map(|v| !v.is_empty()).unwrap_or(false) || env.get("HOME").map(|v| !v.is_empty()).unwrap_or(false));
            (env, present, idx % 3 == 0 && sandboxable, ops)
        },
    };
    let mut viol = vec![];
    stats.runs += 1;
    // Stdfs leg: the same lookups with every directory below a private sandbox
    let sb = if stdfs_leg {
        crate::diffw::drop_privileges_once();
        let sb = Sandbox::new();
        if sb.fresh().is_err() {
            None
        } else {
            Some(sb)
        }
    } else {
        None
    };
    let real_env: Env = match &sb {
        Some(sb) => env
            .iter()
            .map(|(k, v)| {
                if k.starts_with("XDG") || k == "HOME" {
                    (k.clone(), v.split(':').map(|s| if s.starts_with('/') { sb.real(s) } else { s.to_string() }).collect::<Vec<_>>().join(":"))
                } else {
                    (k.clone(), v.clone())
                }
            })
            .collect(),
        None => env.clone(),
    };
    std::env::remove_var("PATH");
    seq::set_env(&real_env);
    let mem = Memfs::new();
    let std_ = Stdfs::new();
    for p in &present {
        let rp = match &sb {
            Some(sb) => sb.real(p),
            None => p.clone(),
        };
        if let Some(par) = std::path::Path::new(&rp).parent() {
            let _ = mem.mkdir_p(par);
            if sb.is_some() {
                let _ = std::fs::create_dir_all(par);
            }
        }
        let _ = mem.mkfile(&rp);
        if sb.is_some() {
            let _ = std::fs::write(&rp, b"");
        }
    }
    let unreal = |o: &Outcome| -> Outcome {
        // map sandbox paths back to the virtual ones the reference uses
        let f = |s: &String| -> String {
            match &sb {
                Some(sb) => sb.virt(s).unwrap_or_else(|| s.clone()),
                None => s.clone(),
            }
        };
        match o {
            Outcome::Ok(Val::Path(p)) => Outcome::Ok(Val::Path(f(p))),
            Outcome::Ok(Val::Paths(ps)) => Outcome::Ok(Val::Paths(ps.iter().map(f).collect())),
            Outcome::Ok(Val::OptPath(p)) => Outcome::Ok(Val::OptPath(p.as_ref().map(f))),
            Outcome::Err(_) => Outcome::Err("any".into()),
            x => x.clone(),
        }
    };
    let mut hs = Handles::default();
    for (step, op) in ops.iter().enumerate() {
        let mut results: Vec<(&str, Outcome)> = vec![("memfs", exec::exec(&mem, &mut hs, op))];
        if sb.is_some() && matches!(op, Op::ConfigDir { .. }) {
            results.push(("stdfs", exec::exec(&std_, &mut hs, op)));
        }
        stats.steps += 1;
        let involved: Vec<&str> = match op {
            Op::UserDir { which } => match which.as_str() {
                "home" => vec!["HOME"],
                "config" => vec!["XDG_CONFIG_HOME", "HOME"],
                "cache" => vec!["XDG_CACHE_HOME", "HOME"],
                "data" => vec!["XDG_DATA_HOME", "HOME"],
                "state" => vec!["XDG_STATE_HOME", "HOME"],
                "runtime" => vec!["XDG_RUNTIME_DIR"],
                "sys_config" => vec!["XDG_CONFIG_DIRS"],
                "sys_data" => vec!["XDG_DATA_DIRS"],
                _ => vec!["PATH"],
            },
            Op::Getrids { .. } => vec!["SUDO_UID", "SUDO_GID"],
            _ => vec!["XDG_CONFIG_HOME", "XDG_CONFIG_DIRS", "HOME"],
        };
        let vclass: Vec<String> = involved.iter().map(|k| format!("{}={}", k, var_class(&env, k))).collect();
        for (backend, out) in results {
            let got = unreal(&out);
            let acceptable: Vec<Outcome> = match op {
                Op::UserDir { which } => ref_user_dir(which, &env),
                Op::Getrids { uid, gid } => {
                    let pair = match (uid, env.get("SUDO_UID").and_then(|s| numeric(s)), env.get("SUDO_GID").and_then(|s| numeric(s))) {
                        (0, Some(u), Some(g)) => (u, g),
                        _ => (*uid, *gid),
                    };
                    vec![Outcome::Ok(Val::Pair(pair.0, pair.1))]
                },
                Op::ConfigDir { name } => ref_config_dir(name, &env, &present).into_iter().map(|d| Outcome::Ok(Val::OptPath(d))).collect(),
                _ => vec![],
            };
            let class = format!("{}|{}|{}", op.label(), backend, vclass.join(","));
            let triple = format!("{}|{}", class, got.class3());
            if involved.iter().all(|k| !env.contains_key(*k)) {
                stats.trivial_triples.insert(triple);
            } else {
                stats.triples.insert(triple);
            }
            for v in &vclass {
                stats.bump(&format!("fault.F10_env.{}", v));
            }
            if !acceptable.contains(&got) {
                viol.push(Violation {
                    property: "C18".into(),
                    oracle: "reference-lookup".into(),
                    step,
                    sig: format!("lookup|{}", class),
                    detail: format!("{:?} ({}) in env {:?} with present {:?}: got {:?}, acceptable {:?}", op, backend, env, present, got, acceptable),
                });
            }
        }
        if !viol.is_empty() {
            break;
        }
    }
    if let Some(sb) = &sb {
        sb.cleanup();
    }
    let case = EnvCase {
        format: 1,
        property: "C18".into(),
        world: "ENV".into(),
        seed,
        run: idx,
        env,
        present,
        stdfs_leg,
        ops,
        expect: viol.first().map(|v| seq::ExpectSig { sig: v.sig.clone(), step: v.step }),
        what: viol.first().map(|v| v.detail.clone()).unwrap_or_default(),
    };
    (case, viol)
}

fn run_any(id: &str, seed: u64, idx: u64, stats: &mut Stats, replay: Option<&EnvCase>) -> (EnvCase, Vec<Violation>) {
    if id == "C17" {
        c17_run(seed, idx, stats, replay)
    } else {
        c18_run(seed, idx, stats, replay)
    }
}

pub fn run_index(id: &str, _tier: &str, seed: u64, idx: u64, stats: &mut Stats, known: &dyn Fn(&Violation) -> bool) -> Option<Finding> {
    let (mut case, viol) = run_any(id, seed, idx, stats, None);
    let mut h = 0u64;
    h = hash_bytes(h, format!("{:?}{:?}", case.env, case.ops).as_bytes());
    stats.distinct_cases.insert(h);
    if stats.samples.len() < 3 {
        stats.samples.push(json!({"run": idx, "env": case.env, "ops": case.ops.iter().take(6).collect::<Vec<_>>()}));
    }
    let v = viol.into_iter().next()?;
    if known(&v) {
        *stats.known_hits.entry(v.sig.clone()).or_insert(0) += 1;
        return None;
    }
    // minimise: keep only the failing operation, then drop environment variables one by one
    let failing = case.ops[v.step].clone();
    let mut small = case.clone();
    small.ops = vec![failing];
    let still = |c: &EnvCase| -> bool {
        let mut st = Stats::default();
        run_any(id, seed, idx, &mut st, Some(c)).1.first().map(|x| x.sig == v.sig).unwrap_or(false)
    };
    if still(&small) {
        case = small;
        case.expect = Some(seq::ExpectSig { sig: v.sig.clone(), step: 0 });
    }
    Some(Finding { violation: v, case: serde_json::to_value(&case).unwrap() })
}

pub fn replay(case: &serde_json::Value) -> Result<(Option<Violation>, String), String> {
    let c: EnvCase = serde_json::from_value(case.clone()).map_err(|e| e.to_string())?;
    let mut st = Stats::default();
    let (_, v) = run_any(&c.property, c.seed, c.run, &mut st, Some(&c));
    Ok((v.into_iter().next(), String::new()))
}

/// C20: the assert_vfs_* macros as operations of ordinary histories
pub fn c20_cfg() -> PropCfg {
    PropCfg {
        id: "C20",
        profile: Profile {
            name: "assert-macros",
            weights: cat(&[
                &[
                    ("mkdir_p", 6),
                    ("mkfile", 5),
                    ("write_all", 5),
                    ("symlink", 5),
                    ("remove", 2),
                    ("move_p", 2),
                    ("chmod", 1),
                    ("set_cwd", 1),
                ],
                &[("macro", 40)],
            ]),
            spelling: 1,
            hostile: 0,
            swarm_drop: 0,
            max_len: 40,
            big_data: false,
        },
        strict: Strict { err_kinds: false, values: true, cmp: Cmp::ALL, ops: Some(vec!["macro"]), strict_listing_links: false },
        model_oracle: true,
        integrity_oracle: false,
        panic_oracle: false,
        wrapper: false,
        canon_twin: false,
    }
}
