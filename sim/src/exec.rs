//! Executes one `Op` against any VirtualFileSystem implementation (Memfs, Stdfs or the Vfs wrapper)
//! and normalises what happened to an `Outcome`.
use std::{
    io::{Read, Seek, SeekFrom, Write},
    panic::{catch_unwind, AssertUnwindSafe},
    path::PathBuf,
};

use rivia::prelude::*;

use crate::ops::*;

pub enum H {
    R(Box<dyn ReadSeek>),
    W(Box<dyn Write>),
}

pub const SLOTS: usize = 4;

pub struct Handles {
    pub slots: Vec<Option<H>>,
    /// builders kept across steps
    pub builders: Vec<Option<B>>,
}

pub enum B {
    Chmod(rivia::sys::Chmod),
    Chown(rivia::sys::Chown),
}

impl Default for Handles {
    fn default() -> Self {
        Handles { slots: (0..SLOTS).map(|_| None).collect(), builders: vec![None, None] }
    }
}

impl Handles {
    /// Drop every handle; a destructor that panics (that is some operation's finding, reported
    /// where it is executed explicitly) must not take the harness down with it
    pub fn clear(&mut self) {
        for b in self.builders.iter_mut() {
            *b = None;
        }
        for s in self.slots.iter_mut() {
            if let Some(h) = s.take() {
                let _ = std::panic::catch_unwind(std::panic::AssertUnwindSafe(move || drop(h)));
            }
        }
    }
}

pub fn ps(p: &std::path::Path) -> String {
    p.to_string_lossy().into_owned()
}

pub fn err_kind(e: &RvError) -> String {
    fn variant<T: std::fmt::Debug>(x: &T) -> String {
        let s = format!("{:?}", x);
        s.split(|c: char| c == '(' || c == ' ' || c == '{').next().unwrap_or("").to_string()
    }
    match e {
        RvError::Path(p) => format!("Path::{}", variant(p)),
        RvError::Io(e) => format!("Io::{:?}", e.kind()),
        RvError::Var(v) => format!("Var::{}", variant(v)),
        RvError::Vfs(v) => format!("Vfs::{}", variant(v)),
        RvError::Nix(v) => format!("Nix::{:?}", v),
        RvError::Core(v) => format!("Core::{}", variant(v)),
        RvError::File(v) => format!("File::{}", variant(v)),
        RvError::Iter(v) => format!("Iter::{}", variant(v)),
        RvError::String(v) => format!("String::{}", variant(v)),
        RvError::SystemTime(_) => "SystemTime".to_string(),
        RvError::User(v) => format!("User::{}", variant(v)),
        RvError::Utf8(_) => "Utf8".to_string(),
    }
}

pub fn view(e: &VfsEntry) -> EntryView {
    EntryView {
        path: ps(e.path()),
        alt: ps(e.alt()),
        rel: ps(e.rel()),
        dir: e.is_dir(),
        file: e.is_file(),
        link: e.is_symlink(),
        mode: e.mode(),
        following: e.following(),
        exec: e.is_exec(),
        readonly: e.is_readonly(),
        symlink_dir: e.is_symlink_dir(),
        symlink_file: e.is_symlink_file(),
        file_name: e.file_name().map(|x| x.to_string_lossy().into_owned()),
    }
}

thread_local! {
    /// set when the accessors of a VfsEntry disagree with those of the value it wraps (C13)
    pub static ENTRY_MISMATCH: std::cell::RefCell<Option<String>> = const { std::cell::RefCell::new(None) };
    /// how often the macro under test evaluated its path argument (C20: a macro is a call, its
    /// arguments are evaluated once)
    pub static MACRO_ARG_EVALS: std::cell::Cell<u32> = const { std::cell::Cell::new(0) };
    /// set when a macro that returned normally evaluated its path argument more than once
    pub static MACRO_TWICE: std::cell::RefCell<Option<String>> = const { std::cell::RefCell::new(None) };
    /// set when follow(true) on a copy of a followed entry swaps path and alt a second time (C10)
    pub static FOLLOW_TWICE: std::cell::RefCell<Option<String>> = const { std::cell::RefCell::new(None) };
}

/// The same accessor set read from the wrapped backend value instead of through the enum
fn view_inner(e: &VfsEntry) -> EntryView {
    fn of<E: Entry>(x: &E) -> EntryView {
        EntryView {
            path: ps(x.path()),
            alt: ps(x.alt()),
            rel: ps(x.rel()),
            dir: x.is_dir(),
            file: x.is_file(),
            link: x.is_symlink(),
            mode: x.mode(),
            following: x.following(),
            exec: x.is_exec(),
            readonly: x.is_readonly(),
            symlink_dir: x.is_symlink_dir(),
            symlink_file: x.is_symlink_file(),
            file_name: x.file_name().map(|n| n.to_string_lossy().into_owned()),
        }
    }
    match e {
        VfsEntry::Memfs(x) => of(x),
        VfsEntry::Stdfs(x) => of(x),
    }
}

/// follow() called on the wrapped backend value
fn follow_inner(e: VfsEntry, yes: bool) -> VfsEntry {
    match e {
        VfsEntry::Memfs(x) => x.follow(yes),
        VfsEntry::Stdfs(x) => x.follow(yes),
    }
}

fn r<T>(x: RvResult<T>, f: impl FnOnce(T) -> Val) -> Outcome {
    match x {
        Ok(v) => Outcome::Ok(f(v)),
        Err(e) => Outcome::Err(err_kind(&e)),
    }
}

fn io<T>(x: std::io::Result<T>, f: impl FnOnce(T) -> Val) -> Outcome {
    match x {
        Ok(v) => Outcome::Ok(f(v)),
        Err(e) => Outcome::Err(format!("Io::{:?}", e.kind())),
    }
}

fn paths(v: Vec<PathBuf>) -> Val {
    Val::Paths(v.iter().map(|x| ps(x)).collect())
}

pub fn panic_text(e: Box<dyn std::any::Any + Send>) -> String {
    if let Some(s) = e.downcast_ref::<&str>() {
        s.to_string()
    } else if let Some(s) = e.downcast_ref::<String>() {
        s.clone()
    } else {
        "<non-string panic>".to_string()
    }
}

pub fn filter_keep(f: &Filter, e: &VfsEntry) -> bool {
    match f {
        Filter::NameMod { m, r } => {
            let n = e.file_name().map(|x| x.to_string_lossy().into_owned()).unwrap_or_default();
            crate::prng::hash_str(&n) % (*m).max(1) == *r
        },
        Filter::IsLink => e.is_symlink(),
        Filter::NotLink => !e.is_symlink(),
    }
}

/// Upper bound of `next()` calls granted to a traversal before it is declared non-terminating
pub const TRAVERSAL_BUDGET: usize = 20_000;

fn run_entries<V: VirtualFileSystem>(v: &V, p: &str, o: &EntOpts) -> Outcome {
    let mut e = match v.entries(p) {
        Ok(e) => e,
        Err(e) => return Outcome::Err(err_kind(&e)),
    };
    if o.min_first {
        if let Some(m) = o.min {
            e = e.min_depth(m);
        }
        if let Some(m) = o.max {
            e = e.max_depth(m);
        }
    } else {
        if let Some(m) = o.max {
            e = e.max_depth(m);
        }
        if let Some(m) = o.min {
            e = e.min_depth(m);
        }
    }
    if o.dirs {
        e = e.dirs();
    }
    if o.files {
        e = e.files();
    }
    if o.follow {
        e = e.follow(true);
    }
    if o.sort_by_name {
        e = e.sort_by_name();
    }
    if o.dirs_first {
        e = e.dirs_first();
    }
    if o.files_first {
        e = e.files_first();
    }
    if o.contents_first {
        e = e.contents_first();
    }
    let mut it = e.into_iter();
    if let Some(f) = o.filter.clone() {
        it = it.filter_p(move |x| filter_keep(&f, x));
    }
    let mut out = vec![];
    let mut ended = false;
    for _ in 0..TRAVERSAL_BUDGET {
        match it.next() {
            None => {
                ended = true;
                break;
            },
            Some(Ok(x)) => {
                let (vw, vi) = (view(&x), view_inner(&x));
                if vw != vi {
                    ENTRY_MISMATCH.with(|m| *m.borrow_mut() = Some(format!("traversal item: enum {:?} vs wrapped value {:?}", vw, vi)));
                }
                if o.follow {
                    let again = view(&x.clone().follow(true));
                    if again != vw {
                        FOLLOW_TWICE.with(|m| *m.borrow_mut() = Some(format!("yielded {:?} but follow(true) on its clone gives {:?}", vw, again)));
                    }
                }
                out.push(Ok(vw))
            },
            Some(Err(e)) => {
                out.push(Err(err_kind(&e)));
                // an iterator that reported an error is not required to continue
                ended = true;
                break;
            },
        }
    }
    Outcome::Ok(Val::Entries(out, ended))
}

fn run_macro<V: VirtualFileSystem>(v: &V, name: &str, a: &str, b: &Option<String>, mode: Option<u32>, d: &Option<Bytes>) -> Outcome {
    let bb = b.clone().unwrap_or_default();
    let text = d.as_ref().map(|x| String::from_utf8_lossy(&x.0).into_owned()).unwrap_or_default();
    let m = mode.unwrap_or(0o755);
    let a = PathBuf::from(a);
    let bp = PathBuf::from(&bb);
    let raw: Vec<u8> = d.as_ref().map(|x| x.0.clone()).unwrap_or_default();
    MACRO_ARG_EVALS.with(|c| c.set(0));
    // the path argument is an expression with a side effect: it counts its own evaluations
    macro_rules! arg {
        () => {{
            MACRO_ARG_EVALS.with(|c| c.set(c.get() + 1));
            &a
        }};
    }
    match name {
        "exists" => {
            assert_vfs_exists!(v, arg!());
        },
        "no_exists" => {
            assert_vfs_no_exists!(v, arg!());
        },
        "is_dir" => {
            assert_vfs_is_dir!(v, arg!());
        },
        "no_dir" => {
            assert_vfs_no_dir!(v, arg!());
        },
        "is_file" => {
            assert_vfs_is_file!(v, arg!());
        },
        "no_file" => {
            assert_vfs_no_file!(v, arg!());
        },
        "is_symlink" => {
            assert_vfs_is_symlink!(v, arg!());
        },
        "no_symlink" => {
            assert_vfs_no_symlink!(v, arg!());
        },
        "read_all" => {
            assert_vfs_read_all!(v, arg!(), text);
        },
        "readlink" => {
            assert_vfs_readlink!(v, arg!(), &bp);
        },
        "readlink_abs" => {
            assert_vfs_readlink_abs!(v, arg!(), &bp);
        },
        "mkdir_p" => {
            assert_vfs_mkdir_p!(v, arg!());
        },
        "mkdir_m" => {
            assert_vfs_mkdir_m!(v, arg!(), m);
        },
        "mkfile" => {
            assert_vfs_mkfile!(v, arg!());
        },
        "write_all" => {
            assert_vfs_write_all!(v, arg!(), &raw);
        },
        "copyfile" => {
            assert_vfs_copyfile!(v, arg!(), &bp);
        },
        "symlink" => {
            assert_vfs_symlink!(v, arg!(), &bp);
        },
        "remove" => {
            assert_vfs_remove!(v, arg!());
        },
        "remove_all" => {
            assert_vfs_remove_all!(v, arg!());
        },
        _ => return Outcome::Err("Harness::UnknownMacro".into()),
    }
    let n = MACRO_ARG_EVALS.with(|c| c.get());
    if n != 1 {
        MACRO_TWICE.with(|m| *m.borrow_mut() = Some(format!("assert_vfs_{}! returned normally after evaluating its path argument {} times", name, n)));
    }
    Outcome::Ok(Val::Unit)
}

fn user_dir(which: &str) -> Outcome {
    match which {
        "home" => r(user::home_dir(), |x| Val::Path(ps(&x))),
        "config" => r(user::config_dir(), |x| Val::Path(ps(&x))),
        "cache" => r(user::cache_dir(), |x| Val::Path(ps(&x))),
        "data" => r(user::data_dir(), |x| Val::Path(ps(&x))),
        "state" => r(user::state_dir(), |x| Val::Path(ps(&x))),
        "runtime" => Outcome::Ok(Val::Path(ps(&user::runtime_dir()))),
        "sys_config" => r(user::sys_config_dirs(), paths),
        "sys_data" => r(user::sys_data_dirs(), paths),
        "path" => r(user::path_dirs(), paths),
        _ => Outcome::Err("Harness::UnknownUserDir".into()),
    }
}

fn exec_inner<V: VirtualFileSystem>(v: &V, hs: &mut Handles, op: &Op) -> Outcome {
    match op {
        Op::Abs { p } => r(v.abs(p), |x| Val::Path(ps(&x))),
        Op::AllDirs { p } => r(v.all_dirs(p), paths),
        Op::AllFiles { p } => r(v.all_files(p), paths),
        Op::AllPaths { p } => r(v.all_paths(p), paths),
        Op::Paths { p } => r(v.paths(p), paths),
        Op::Dirs { p } => r(v.dirs(p), paths),
        Op::Files { p } => r(v.files(p), paths),
        Op::AppendAll { p, d } => r(v.append_all(p, &d.0), |_| Val::Unit),
        Op::AppendLine { p, s } => r(v.append_line(p, s), |_| Val::Unit),
        Op::AppendLines { p, ls } => r(v.append_lines(p, ls), |_| Val::Unit),
        Op::Chmod { p, mode } => r(v.chmod(p, *mode), |_| Val::Unit),
        Op::ChmodB { p, calls } => {
            let mut b = match v.chmod_b(p) {
                Ok(b) => b,
                Err(e) => return Outcome::Err(err_kind(&e)),
            };
            for c in calls {
                b = match c {
                    ChmodCall::All(m) => b.all(*m),
                    ChmodCall::Dirs(m) => b.dirs(*m),
                    ChmodCall::Files(m) => b.files(*m),
                    ChmodCall::Sym(s) => b.sym(s),
                    ChmodCall::Follow => b.follow(),
                    ChmodCall::Recurse => b.recurse(),
                    ChmodCall::NoRecurse => b.no_recurse(),
                    ChmodCall::Readonly => b.readonly(),
                    ChmodCall::Secure => b.secure(),
                };
            }
            r(b.exec(), |_| Val::Unit)
        },
        Op::Chown { p, uid, gid } => r(v.chown(p, *uid, *gid), |_| Val::Unit),
        Op::ChownB { p, calls } => {
            let mut b = match v.chown_b(p) {
                Ok(b) => b,
                Err(e) => return Outcome::Err(err_kind(&e)),
            };
            for c in calls {
                b = match c {
                    ChownCall::Uid(u) => b.uid(*u),
                    ChownCall::Gid(g) => b.gid(*g),
                    ChownCall::Owner(u, g) => b.owner(*u, *g),
                    ChownCall::Follow => b.follow(),
                    ChownCall::Recurse(y) => b.recurse(*y),
                };
            }
            r(b.exec(), |_| Val::Unit)
        },
        Op::ConfigDir { name } => Outcome::Ok(Val::OptPath(v.config_dir(name).map(|x| ps(&x)))),
        Op::Copy { s, d } => r(v.copy(s, d), |_| Val::Unit),
        Op::CopyB { s, d, calls } => {
            let mut b = match v.copy_b(s, d) {
                Ok(b) => b,
                Err(e) => return Outcome::Err(err_kind(&e)),
            };
            for c in calls {
                b = match c {
                    CopyCall::ChmodAll(m) => b.chmod_all(*m),
                    CopyCall::ChmodDirs(m) => b.chmod_dirs(*m),
                    CopyCall::ChmodFiles(m) => b.chmod_files(*m),
                    CopyCall::Follow(y) => b.follow(*y),
                };
            }
            r(b.exec(), |_| Val::Unit)
        },
        Op::CopyBDeferred { s, d, calls, cwd } => {
            let mut b = match v.copy_b(s, d) {
                Ok(b) => b,
                Err(e) => return Outcome::Err(err_kind(&e)),
            };
            for c in calls {
                b = match c {
                    CopyCall::ChmodAll(m) => b.chmod_all(*m),
                    CopyCall::ChmodDirs(m) => b.chmod_dirs(*m),
                    CopyCall::ChmodFiles(m) => b.chmod_files(*m),
                    CopyCall::Follow(y) => b.follow(*y),
                };
            }
            let moved = v.set_cwd(cwd).is_ok();
            match b.exec() {
                Ok(_) => Outcome::Ok(Val::Bool(moved)),
                Err(e) => Outcome::Err(err_kind(&e)),
            }
        },
        Op::ChmodBKeep { b, p, calls } => {
            if hs.builders[*b].is_some() {
                return Outcome::Skip;
            }
            let mut x = match v.chmod_b(p) {
                Ok(x) => x,
                Err(e) => return Outcome::Err(err_kind(&e)),
            };
            for c in calls {
                x = match c {
                    ChmodCall::All(m) => x.all(*m),
                    ChmodCall::Dirs(m) => x.dirs(*m),
                    ChmodCall::Files(m) => x.files(*m),
                    ChmodCall::Sym(s) => x.sym(s),
                    ChmodCall::Follow => x.follow(),
                    ChmodCall::Recurse => x.recurse(),
                    ChmodCall::NoRecurse => x.no_recurse(),
                    ChmodCall::Readonly => x.readonly(),
                    ChmodCall::Secure => x.secure(),
                };
            }
            hs.builders[*b] = Some(B::Chmod(x));
            Outcome::Ok(Val::Unit)
        },
        Op::ChownBKeep { b, p, calls } => {
            if hs.builders[*b].is_some() {
                return Outcome::Skip;
            }
            let mut x = match v.chown_b(p) {
                Ok(x) => x,
                Err(e) => return Outcome::Err(err_kind(&e)),
            };
            for c in calls {
                x = match c {
                    ChownCall::Uid(u) => x.uid(*u),
                    ChownCall::Gid(g) => x.gid(*g),
                    ChownCall::Owner(u, g) => x.owner(*u, *g),
                    ChownCall::Follow => x.follow(),
                    ChownCall::Recurse(y) => x.recurse(*y),
                };
            }
            hs.builders[*b] = Some(B::Chown(x));
            Outcome::Ok(Val::Unit)
        },
        Op::BExec { b } => match &hs.builders[*b] {
            None => Outcome::Skip,
            Some(B::Chmod(x)) => r(x.exec(), |_| Val::Unit),
            Some(B::Chown(x)) => r(x.exec(), |_| Val::Unit),
        },
        Op::BDrop { b } => match hs.builders[*b].take() {
            None => Outcome::Skip,
            Some(_) => Outcome::Ok(Val::Unit),
        },
        Op::ChmodBDeferred { p, calls, cwd } => {
            let mut b = match v.chmod_b(p) {
                Ok(b) => b,
                Err(e) => return Outcome::Err(err_kind(&e)),
            };
            for c in calls {
                b = match c {
                    ChmodCall::All(m) => b.all(*m),
                    ChmodCall::Dirs(m) => b.dirs(*m),
                    ChmodCall::Files(m) => b.files(*m),
                    ChmodCall::Sym(s) => b.sym(s),
                    ChmodCall::Follow => b.follow(),
                    ChmodCall::Recurse => b.recurse(),
                    ChmodCall::NoRecurse => b.no_recurse(),
                    ChmodCall::Readonly => b.readonly(),
                    ChmodCall::Secure => b.secure(),
                };
            }
            let moved = v.set_cwd(cwd).is_ok();
            match b.exec() {
                Ok(_) => Outcome::Ok(Val::Bool(moved)),
                Err(e) => Outcome::Err(err_kind(&e)),
            }
        },
        Op::ChownBDeferred { p, calls, cwd } => {
            let mut b = match v.chown_b(p) {
                Ok(b) => b,
                Err(e) => return Outcome::Err(err_kind(&e)),
            };
            for c in calls {
                b = match c {
                    ChownCall::Uid(u) => b.uid(*u),
                    ChownCall::Gid(g) => b.gid(*g),
                    ChownCall::Owner(u, g) => b.owner(*u, *g),
                    ChownCall::Follow => b.follow(),
                    ChownCall::Recurse(y) => b.recurse(*y),
                };
            }
            let moved = v.set_cwd(cwd).is_ok();
            match b.exec() {
                Ok(_) => Outcome::Ok(Val::Bool(moved)),
                Err(e) => Outcome::Err(err_kind(&e)),
            }
        },
        Op::Cwd => r(v.cwd(), |x| Val::Path(ps(&x))),
        Op::Root => Outcome::Ok(Val::Path(ps(&v.root()))),
        Op::SetCwd { p } => r(v.set_cwd(p), |x| Val::Path(ps(&x))),
        Op::Entries { p, o } => run_entries(v, p, o),
        Op::Entry { p } => match v.entry(p) {
            Ok(e) => {
                // every step once through the enum and once on the wrapped value
                {
                    let mut w = e.clone();
                    let mut i = e.clone();
                    let mut diffs = vec![];
                    for (k, yes) in [(0, None), (1, Some(true)), (2, Some(false)), (3, Some(true))] {
                        if let Some(y) = yes {
                            w = w.follow(y);
                            i = follow_inner(i, y);
                        }
                        let (vw, vi) = (view(&w), view_inner(&i));
                        if vw != vi || view_inner(&w) != vw {
                            diffs.push(format!("step {}: enum {:?} vs wrapped value {:?}", k, vw, vi));
                        }
                    }
                    if !diffs.is_empty() {
                        ENTRY_MISMATCH.with(|m| *m.borrow_mut() = Some(diffs.join("; ")));
                    }
                }
                let v0 = view(&e);
                let e1 = e.follow(true);
                let v1 = view(&e1);
                // "swaps path and alt exactly once": also for a copy of the followed entry
                let again = view(&e1.clone().follow(true));
                if again != v1 {
                    FOLLOW_TWICE.with(|m| *m.borrow_mut() = Some(format!("followed {:?} but follow(true) on its clone gives {:?}", v1, again)));
                }
                let e2 = e1.follow(false);
                let v2 = view(&e2);
                let e3 = e2.follow(true);
                let v3 = view(&e3);
                Outcome::Ok(Val::EntryF(v0, v1, v2, v3))
            },
            Err(e) => Outcome::Err(err_kind(&e)),
        },
        Op::Exists { p } => Outcome::Ok(Val::Bool(v.exists(p))),
        Op::IsDir { p } => Outcome::Ok(Val::Bool(v.is_dir(p))),
        Op::IsFile { p } => Outcome::Ok(Val::Bool(v.is_file(p))),
        Op::IsExec { p } => Outcome::Ok(Val::Bool(v.is_exec(p))),
        Op::IsReadonly { p } => Outcome::Ok(Val::Bool(v.is_readonly(p))),
        Op::IsSymlink { p } => Outcome::Ok(Val::Bool(v.is_symlink(p))),
        Op::IsSymlinkDir { p } => Outcome::Ok(Val::Bool(v.is_symlink_dir(p))),
        Op::IsSymlinkFile { p } => Outcome::Ok(Val::Bool(v.is_symlink_file(p))),
        Op::Gid { p } => r(v.gid(p), Val::U32),
        Op::Uid { p } => r(v.uid(p), Val::U32),
        Op::Owner { p } => r(v.owner(p), |(u, g)| Val::Pair(u, g)),
        Op::Mode { p } => r(v.mode(p), Val::U32),
        Op::MkdirM { p, mode } => r(v.mkdir_m(p, *mode), |x| Val::Path(ps(&x))),
        Op::MkdirP { p } => r(v.mkdir_p(p), |x| Val::Path(ps(&x))),
        Op::Mkfile { p } => r(v.mkfile(p), |x| Val::Path(ps(&x))),
        Op::MkfileM { p, mode } => r(v.mkfile_m(p, *mode), |x| Val::Path(ps(&x))),
        Op::MoveP { s, d } => r(v.move_p(s, d), |_| Val::Unit),
        Op::ReadAll { p } => r(v.read_all(p), Val::Str),
        Op::ReadLines { p } => r(v.read_lines(p), Val::Lines),
        Op::Readlink { p } => r(v.readlink(p), |x| Val::Path(ps(&x))),
        Op::ReadlinkAbs { p } => r(v.readlink_abs(p), |x| Val::Path(ps(&x))),
        Op::Remove { p } => r(v.remove(p), |_| Val::Unit),
        Op::RemoveAll { p } => r(v.remove_all(p), |_| Val::Unit),
        Op::Symlink { l, t } => r(v.symlink(l, t), |x| Val::Path(ps(&x))),
        Op::WriteAll { p, d } => r(v.write_all(p, &d.0), |_| Val::Unit),
        Op::WriteLines { p, ls } => r(v.write_lines(p, ls), |_| Val::Unit),
        Op::OpenRead { h, p } => {
            // a slot holds one handle at a time: opening into an occupied slot does not apply
            if hs.slots[*h].is_some() {
                return Outcome::Skip;
            }
            match v.read(p) {
                Ok(f) => {
                    hs.slots[*h] = Some(H::R(f));
                    Outcome::Ok(Val::Unit)
                },
                Err(e) => Outcome::Err(err_kind(&e)),
            }
        },
        Op::OpenWrite { h, p } => {
            // a slot holds one handle at a time: opening into an occupied slot does not apply
            if hs.slots[*h].is_some() {
                return Outcome::Skip;
            }
            match v.write(p) {
                Ok(f) => {
                    hs.slots[*h] = Some(H::W(f));
                    Outcome::Ok(Val::Unit)
                },
                Err(e) => Outcome::Err(err_kind(&e)),
            }
        },
        Op::OpenAppend { h, p } => {
            // a slot holds one handle at a time: opening into an occupied slot does not apply
            if hs.slots[*h].is_some() {
                return Outcome::Skip;
            }
            match v.append(p) {
                Ok(f) => {
                    hs.slots[*h] = Some(H::W(f));
                    Outcome::Ok(Val::Unit)
                },
                Err(e) => Outcome::Err(err_kind(&e)),
            }
        },
        Op::HRead { h, len } => match hs.slots[*h].as_mut() {
            Some(H::R(f)) => {
                let mut buf = vec![0u8; *len];
                io(f.read(&mut buf), |n| {
                    buf.truncate(n.min(buf.len()));
                    Val::Bytes(Bytes(buf))
                })
            },
            _ => Outcome::Skip,
        },
        Op::HReadToEnd { h } => match hs.slots[*h].as_mut() {
            Some(H::R(f)) => {
                let mut buf = vec![];
                io(f.read_to_end(&mut buf), |_| Val::Bytes(Bytes(buf)))
            },
            _ => Outcome::Skip,
        },
        Op::HSeek { h, w, off } => match hs.slots[*h].as_mut() {
            Some(H::R(f)) => {
                let pos = match w {
                    Whence::Start => SeekFrom::Start(*off as u64),
                    Whence::Current => SeekFrom::Current(*off),
                    Whence::End => SeekFrom::End(*off),
                };
                io(f.seek(pos), Val::U64)
            },
            _ => Outcome::Skip,
        },
        Op::HWrite { h, d } => match hs.slots[*h].as_mut() {
            Some(H::W(f)) => io(f.write_all(&d.0), |_| Val::Unit),
            _ => Outcome::Skip,
        },
        Op::HFlush { h } => match hs.slots[*h].as_mut() {
            Some(H::W(f)) => io(f.flush(), |_| Val::Unit),
            _ => Outcome::Skip,
        },
        Op::HDrop { h } => match hs.slots[*h].take() {
            Some(x) => {
                drop(x);
                Outcome::Ok(Val::Unit)
            },
            None => Outcome::Skip,
        },
        Op::HDropUnwind { h } => match hs.slots[*h].take() {
            Some(x) => {
                // the client panics while it owns the handle: the handle is dropped by unwinding
                let res = catch_unwind(AssertUnwindSafe(move || {
                    let _own = x;
                    std::panic::panic_any(ClientPanic);
                }));
                match res {
                    Err(e) if e.downcast_ref::<ClientPanic>().is_some() => Outcome::Ok(Val::Unit),
                    Err(e) => Outcome::Panic(panic_text(e)),
                    Ok(_) => Outcome::Ok(Val::Unit),
                }
            },
            None => Outcome::Skip,
        },
        Op::Macro { name, a, b, mode, d } => run_macro(v, name, a, b, *mode, d),
        Op::Expand { p } => r(sys::expand(p), |x| Val::Path(ps(&x))),
        Op::UserDir { which } => user_dir(which),
        Op::PathFn { f, a, b } => {
            let pa = PathBuf::from(a);
            let pb = PathBuf::from(b);
            // only totality is judged: every helper must return, whatever the text
            let text: String = match f.as_str() {
                "trim_prefix" => ps(&pa.trim_prefix(&pb)),
                "trim_suffix" => ps(&pa.trim_suffix(&pb)),
                "trim_ext" => format!("{:?}", pa.trim_ext().map(|x| ps(&x)).map_err(|e| err_kind(&e))),
                "trim_first" => ps(&pa.trim_first()),
                "trim_last" => ps(&pa.trim_last()),
                "trim_protocol" => ps(&pa.trim_protocol()),
                "mash" => ps(&pa.mash(&pb)),
                "relative" => format!("{:?}", pa.relative(&pb).map(|x| ps(&x)).map_err(|e| err_kind(&e))),
                "clean" => ps(&pa.clean()),
                "expand" => format!("{:?}", pa.expand().map(|x| ps(&x)).map_err(|e| err_kind(&e))),
                "base" => format!("{:?}", pa.base().map_err(|e| err_kind(&e))),
                "dir" => format!("{:?}", pa.dir().map(|x| ps(&x)).map_err(|e| err_kind(&e))),
                "name" => format!("{:?}", pa.name().map_err(|e| err_kind(&e))),
                "ext" => format!("{:?}", pa.ext().map_err(|e| err_kind(&e))),
                "first" => format!("{:?}", pa.first().map_err(|e| err_kind(&e))),
                "last" => format!("{:?}", pa.last().map_err(|e| err_kind(&e))),
                "concat" => format!("{:?}", pa.concat(b).map(|x| ps(&x)).map_err(|e| err_kind(&e))),
                "has" => format!("{}{}{}", pa.has(&pb), pa.has_prefix(&pb), pa.has_suffix(&pb)),
                "parse_paths" => format!("{:?}", sys::parse_paths(a).map(|v| v.len()).map_err(|e| err_kind(&e))),
                "str_ext" => format!("{}{}{:?}", a.size(), a.to_bool(), a.trim_suffix(b)),
                _ => String::new(),
            };
            Outcome::Ok(Val::Str(text))
        },
        Op::Getrids { uid, gid } => {
            let (u, g) = user::getrids(*uid, *gid);
            Outcome::Ok(Val::Pair(u, g))
        },
    }
}

/// Marker payload of the deliberate client panic used to drop a handle by unwinding
pub struct ClientPanic;

pub fn exec<V: VirtualFileSystem>(v: &V, hs: &mut Handles, op: &Op) -> Outcome {
    match catch_unwind(AssertUnwindSafe(|| exec_inner(v, hs, op))) {
        Ok(o) => o,
        Err(e) => Outcome::Panic(panic_text(e)),
    }
}

/// Install a silent panic hook once per process (panics are outcomes here, not noise)
pub fn silence_panics() {
    std::panic::set_hook(Box::new(|_| {}));
}
