//! Workload generation: namespace, operations, spelling layer, data, swarm configuration.
//! Everything is drawn from the run's single PRNG stream.
use crate::{
    model::{Model, K},
    ops::*,
    prng::Rng,
    refpath::{self, Env},
    tree::{join, parent},
};

#[derive(Clone, Debug)]
pub struct Profile {
    pub name: &'static str,
    pub weights: Vec<(&'static str, u32)>,
    /// 0 = canonical spellings only, 1 = some respelling, 2 = every path respelled
    pub spelling: u8,
    /// percent of path arguments replaced by hostile strings
    pub hostile: u32,
    /// swarm: probability (percent) that an op kind is disabled for a run
    pub swarm_drop: u32,
    pub max_len: usize,
    pub big_data: bool,
}

pub const MUTATORS: &[(&str, u32)] = &[
    ("mkdir_p", 10),
    ("mkdir_m", 4),
    ("mkfile", 8),
    ("mkfile_m", 3),
    ("write_all", 8),
    ("append_all", 6),
    ("append_line", 2),
    ("append_lines", 2),
    ("write_lines", 2),
    ("remove", 6),
    ("remove_all", 4),
    ("move_p", 8),
    ("copy", 6),
    ("copy_b", 4),
    ("symlink", 7),
    ("set_cwd", 4),
    ("chmod", 3),
    ("chmod_b", 4),
    ("chown", 2),
    ("chown_b", 3),
];

pub const QUERIES: &[(&str, u32)] = &[
    ("abs", 2),
    ("exists", 3),
    ("is_dir", 3),
    ("is_file", 3),
    ("is_symlink", 2),
    ("is_symlink_dir", 2),
    ("is_symlink_file", 2),
    ("is_exec", 1),
    ("is_readonly", 1),
    ("mode", 2),
    ("uid", 1),
    ("gid", 1),
    ("owner", 1),
    ("entry", 2),
    ("readlink", 2),
    ("readlink_abs", 2),
    ("read_all", 4),
    ("read_lines", 2),
    ("paths", 2),
    ("dirs", 2),
    ("files", 2),
    ("all_paths", 2),
    ("all_dirs", 1),
    ("all_files", 1),
    ("cwd", 1),
    ("root", 1),
    ("entries", 3),
    ("config_dir", 1),
];

pub const HANDLES: &[(&str, u32)] = &[
    ("open_read", 3),
    ("open_write", 3),
    ("open_append", 3),
    ("h_read", 4),
    ("h_read_to_end", 1),
    ("h_seek", 4),
    ("h_write", 6),
    ("h_flush", 3),
    ("h_drop", 3),
    ("h_drop_unwind", 1),
];

pub fn cat(parts: &[&[(&'static str, u32)]]) -> Vec<(&'static str, u32)> {
    let mut v = vec![];
    for p in parts {
        v.extend_from_slice(p);
    }
    v
}

pub const ALPHABETS: &[&[&str]] = &[
    &["a", "b", "c", "d", "e", "f", "g", "h"],
    &["a", "b.txt", ".c", "d e", "f.tar.gz", "g-h", "i_j", "K"],
    &["é", "日本", "😀", "añb", "ü.txt", "x", "y", "ß"],
    &["a", "b", "c", "dd", "d", "a.b", "a-b", "ab"],
    &["a", "b ", " c", "d\t", "e", "f", "g", "\u{a0}h"],
];

pub const HOSTILE: &[&str] = &[
    // (an extension that starts with a multi-byte character, then trailing separators)
    "a.\u{e9}//",
    "a.\u{e9}/.",
    "n.\u{20ac}//",
    "x.\u{1f600}//",
    ".\u{e9}",
    "",
    "~",
    "~x",
    "~~",
    "~/~",
    "a~",
    "/a/~",
    "$",
    "${}",
    "$RV_UNSET",
    "${RV_UNSET",
    "/$RV_UNSET/x",
    "a$",
    "//",
    "/..",
    "/../..",
    "../../../../../../..",
    "a//b",
    ".",
    "..",
    "./.",
    "/.",
    "./",
    "file://",
    "file:///",
    "ftp://x",
    "FILE:///a",
    "https:///a/../b",
    "~/../..",
    "$HOME",
    "${HOME}/x",
    "/é/日本/😀",
    "😀",
    "/a/é😀/../b",
    "é/../..",
    "/a:b",
    ":",
    "/ ",
    " ",
    // characters whose lowercase form has a different byte length, next to the protocol marker
    "İ//é",
    "İİ//x",
    "aİ//€€",
    "K//x",
    "Å//y",
    "file://İ",
    "/İ/../K",
    "ǅ//ß",
];

pub const MODES: &[u32] = &[0o777, 0o755, 0o700, 0o644, 0o600, 0o555, 0o444, 0o400, 0o200, 0o111, 0o1, 0o70, 0o7, 0o750, 0o640, 0o311];

pub struct Gen {
    pub names: Vec<String>,
    pub max_depth: usize,
    pub profile: Profile,
    pub enabled: Vec<(&'static str, u32)>,
    pub run_tag: String,
    pub step: usize,
    pub respelled: u64,
    pub hostile_used: u64,
    /// operations to issue before anything is generated (scale runs)
    pub queue: std::collections::VecDeque<Op>,
}

pub fn make_env(names: &[String], rng: &mut Rng) -> Env {
    let mut env = Env::new();
    // HOME inside the namespace so that ~ spellings name reachable places
    match rng.below(20) {
        0 => {}, // unset
        1 => {
            env.insert("HOME".into(), "/".into());
        },
        _ => {
            env.insert("HOME".into(), format!("/{}", names[0]));
        },
    }
    env.insert("RV_A".into(), names[1 % names.len()].clone());
    env.insert("RV_B".into(), format!("/{}/{}", names[0], names[1 % names.len()]));
    env
}

impl Gen {
    pub fn new(profile: Profile, run_tag: String, rng: &mut Rng) -> Gen {
        let alpha = ALPHABETS[rng.weighted(&[10, 4, 4, 4, 1])];
        let n = rng.range(3, alpha.len().min(8));
        let mut names: Vec<String> = alpha.iter().take(n).map(|s| s.to_string()).collect();
        if rng.chance(1, 25) {
            names.push("L".repeat(200));
        }
        let max_depth = rng.range(1, 4);
        let mut enabled = vec![];
        for (k, w) in &profile.weights {
            if !rng.chance(profile.swarm_drop as usize, 100) {
                enabled.push((*k, *w));
            }
        }
        if enabled.is_empty() {
            enabled = profile.weights.clone();
        }
        // swarm: a third of the hostile-client runs are mostly ordinary histories (states that
        // take several well-formed calls to build) with only an occasional hostile argument
        let mut profile = profile;
        if profile.hostile >= 30 && rng.chance(1, 3) {
            profile.hostile = 8;
        }
        Gen { names, max_depth, profile, enabled, run_tag, step: 0, respelled: 0, hostile_used: 0, queue: Default::default() }
    }

    fn name(&self, rng: &mut Rng) -> String {
        rng.pick(&self.names).clone()
    }

    fn random_path(&self, rng: &mut Rng) -> String {
        let d = rng.range(1, self.max_depth);
        let mut p = String::from("/");
        for _ in 0..d {
            p = join(&p, &self.name(rng));
        }
        p
    }

    fn existing(&self, m: &Model, rng: &mut Rng, want: Option<&[K]>) -> Option<String> {
        let keys: Vec<&String> = match want {
            None => m.t.nodes.keys().collect(),
            Some(ks) => m.t.nodes.keys().filter(|k| ks.contains(&m.k(k))).collect(),
        };
        if keys.is_empty() {
            None
        } else {
            Some((*rng.pick(&keys)).clone())
        }
    }

    fn fresh_child(&self, m: &Model, rng: &mut Rng) -> String {
        let dir = self.existing(m, rng, Some(&[K::Dir])).unwrap_or_else(|| "/".into());
        join(&dir, &self.name(rng))
    }

    /// canonical path for a creating call
    fn p_create(&self, m: &Model, rng: &mut Rng) -> String {
        match rng.below(10) {
            0..=4 => self.fresh_child(m, rng),
            5..=6 => self.existing(m, rng, None).unwrap_or_else(|| "/".into()),
            _ => self.random_path(rng),
        }
    }

    /// canonical path for a call on something that should exist
    fn p_target(&self, m: &Model, rng: &mut Rng, want: Option<&[K]>) -> String {
        match rng.below(10) {
            0..=5 => self.existing(m, rng, want).or_else(|| self.existing(m, rng, None)).unwrap_or_else(|| "/".into()),
            6 => self.existing(m, rng, None).unwrap_or_else(|| "/".into()),
            7 => {
                // through an existing entry (child of a file or a link)
                let e = self.existing(m, rng, None).unwrap_or_else(|| "/".into());
                join(&e, &self.name(rng))
            },
            _ => self.random_path(rng),
        }
    }

    /// Rewrite a canonical absolute path into an equivalent spelling
    pub fn respell(&mut self, canon: &str, m: &Model, rng: &mut Rng) -> String {
        let level = self.profile.spelling;
        if level == 0 || (level == 1 && !rng.chance(1, 4)) {
            return canon.to_string();
        }
        let cwd = m.t.cwd.clone();
        let mut s = canon.to_string();
        let mut form = rng.below(7);
        if form == 3 && !m.env.contains_key("HOME") {
            form = 0;
        }
        match form {
            0 | 1 | 2 => {
                // relative to cwd
                let rel = if canon == cwd { ".".to_string() } else { refpath::relative(canon, &cwd) };
                s = rel;
                if rng.chance(1, 3) {
                    s = format!("./{}", s);
                }
            },
            3 => {
                let home = m.env["HOME"].clone();
                if home.starts_with('/') && crate::tree::is_under(canon, &home) {
                    let rest = if home == "/" { &canon[1..] } else { canon[home.len()..].trim_start_matches('/') };
                    s = if rest.is_empty() { "~".to_string() } else { format!("~/{}", rest) };
                }
            },
            4 => {
                let proto = *rng.pick(&["file://", "FILE://", "ftp://", "http://", "HTTPS://"]);
                s = format!("{}{}", proto, canon);
            },
            5 => {
                // substitute a component or prefix by a variable
                let a = m.env.get("RV_A").cloned().unwrap_or_default();
                let b = m.env.get("RV_B").cloned().unwrap_or_default();
                if !b.is_empty() && crate::tree::is_under(canon, &b) && rng.chance(1, 2) {
                    let rest = &canon[b.len()..];
                    s = format!("{}{}", if rng.chance(1, 2) { "$RV_B" } else { "${RV_B}" }, rest);
                } else if !a.is_empty() {
                    let comps: Vec<&str> = canon.split('/').collect();
                    if let Some(i) = comps.iter().position(|c| *c == a) {
                        let mut c2: Vec<String> = comps.iter().map(|x| x.to_string()).collect();
                        c2[i] = if rng.chance(1, 2) { "$RV_A".into() } else { "${RV_A}".into() };
                        s = c2.join("/");
                    }
                }
            },
            _ => {},
        }
        // decorations that keep the lexical meaning
        if !s.contains("://") && !s.starts_with('~') && !s.starts_with('$') {
            if rng.chance(1, 4) && s.contains('/') {
                // duplicate one separator (not the leading one of a protocol-less absolute path twice)
                let idxs: Vec<usize> = s.match_indices('/').map(|(i, _)| i).filter(|i| *i > 0).collect();
                if !idxs.is_empty() {
                    let i = *rng.pick(&idxs);
                    s.insert(i, '/');
                }
            }
            if rng.chance(1, 4) {
                // insert zz/../ after a separator
                let idxs: Vec<usize> = s.match_indices('/').map(|(i, _)| i + 1).collect();
                if !idxs.is_empty() {
                    let i = *rng.pick(&idxs);
                    s.insert_str(i, "zz/../");
                } else if !s.starts_with("..") && s != "." {
                    s = format!("zz/../{}", s);
                }
            }
        }
        if rng.chance(1, 5) && !s.ends_with('/') && s != "~" {
            s.push('/');
        }
        // the generator must never change the meaning: verified against the reference resolver
        match refpath::abs(&s, &cwd, &m.env) {
            Ok(a) if a == canon => {
                if s != canon {
                    self.respelled += 1;
                }
                s
            },
            _ => canon.to_string(),
        }
    }

    fn hostile_or(&mut self, p: String, rng: &mut Rng) -> String {
        if self.profile.hostile > 0 && rng.chance(self.profile.hostile as usize, 100) {
            self.hostile_used += 1;
            if rng.chance(1, 12) {
                // long paths: many components (bounded: traversal cost grows quadratically with
                // depth and a slow call is not a hang) or one very long name
                return if rng.chance(1, 2) { format!("/{}", "x/".repeat(rng.range(20, 60))) } else { format!("/{}", "y".repeat(rng.range(200, 5000))) };
            }
            return rng.pick(HOSTILE).to_string();
        }
        p
    }

    fn arg(&mut self, canon: String, m: &Model, rng: &mut Rng) -> String {
        let s = self.respell(&canon, m, rng);
        self.hostile_or(s, rng)
    }

    pub fn mode(&self, rng: &mut Rng) -> u32 {
        if self.profile.hostile >= 10 && rng.chance(1, 10) {
            // hostile profiles: modes with type bits, out of range, zero
            return *rng.pick(&[0u32, 0o40700, 0o100644, 0o120777, 0o170000, 0o7777, 0o10000, u32::MAX, 0o777777]);
        }
        let m = if rng.chance(3, 4) { *rng.pick(MODES) } else { rng.range(1, 0o777) as u32 };
        // now and then with a set-id or sticky bit: permission bits are twelve, not nine
        if rng.chance(1, 10) {
            m | *rng.pick(&[0o1000u32, 0o2000, 0o4000, 0o6000])
        } else {
            m
        }
    }

    pub fn data(&mut self, rng: &mut Rng) -> Bytes {
        let tag = format!("<{}.{}>", self.run_tag, self.step);
        let mut v = tag.into_bytes();
        match rng.weighted(&[40, 8, 12, 8, 12, 5, if self.profile.big_data { 3 } else { 0 }]) {
            0 => {
                let n = rng.below(12);
                for _ in 0..n {
                    v.push(b'a' + rng.below(26) as u8);
                }
            },
            1 => v.clear(),
            2 => v.extend_from_slice("é日本😀ß".as_bytes()),
            3 => v.extend_from_slice(&[0xff, 0xfe, 0x80, 0x00, 0xc3]),
            4 => v.extend_from_slice(b"l1\nl2\n\nl4"),
            5 => v.extend_from_slice(b"c1\r\nc2\r\n"),
            _ => {
                // (sizes on both sides of the usual buffer sizes; now and then multi-byte text)
                let n = *rng.pick(&[4096usize, 8191, 8192, 20000, 65535, 65536, 70000, 150000]) + rng.below(3);
                if rng.chance(1, 3) {
                    for _ in 0..n / 2 {
                        v.extend_from_slice("\u{e9}".as_bytes());
                    }
                } else {
                    let b = b'A' + rng.below(26) as u8;
                    v.extend(std::iter::repeat(b).take(n));
                }
            },
        }
        // a byte order mark in front: text like any other
        if !v.is_empty() && rng.chance(1, 40) {
            let mut w = "\u{feff}".as_bytes().to_vec();
            w.extend_from_slice(&v);
            v = w;
        }
        Bytes(v)
    }

    pub fn lines(&mut self, rng: &mut Rng) -> Vec<String> {
        let n = rng.weighted(&[1, 4, 3, 2]);
        let mut v = vec![];
        for i in 0..n {
            let l = match rng.weighted(&[12, 1, 2, 1, 1, 1]) {
                0 => format!("<{}.{}.{}>line", self.run_tag, self.step, i),
                1 => String::new(),
                2 => format!("é日本<{}.{}.{}>", self.run_tag, self.step, i),
                3 => format!("x\ny<{}.{}>", self.run_tag, self.step),
                // a line that brings its own terminator, or is nothing but one: the helpers add
                // exactly one newline per line whatever the line ends in
                4 => format!("<{}.{}.{}>nl\n", self.run_tag, self.step, i),
                _ => String::from("\n"),
            };
            v.push(l);
        }
        v
    }

    pub fn sym(&self, rng: &mut Rng) -> String {
        let mut clauses = vec![];
        let n = rng.weighted(&[0, 5, 4, 2]);
        for _ in 0..n {
            let t = *rng.pick(&["d", "f", "a"]);
            let mut g = String::new();
            for _ in 0..rng.range(1, 2) {
                g.push(*rng.pick(&['u', 'g', 'o', 'a']));
            }
            let op = *rng.pick(&['-', '+', '=']);
            let mut p = String::new();
            for _ in 0..rng.range(1, 3) {
                p.push(*rng.pick(&['r', 'w', 'x']));
            }
            clauses.push(format!("{}:{}{}{}", t, g, op, p));
        }
        let mut s = clauses.join(",");
        if rng.chance(1, 8) {
            // malform the first clause
            let first_len = clauses[0].len();
            match rng.below(5) {
                0 => s.replace_range(0..1, "z"),
                1 => s = s.replacen(':', "", 1),
                2 => s.replace_range(first_len - 1..first_len, "q"),
                3 => s = s.replacen(|c| c == '-' || c == '+' || c == '=', "", 1),
                _ => s.replace_range(2..3, "k"),
            }
        }
        s
    }

    pub fn ent_opts(&self, rng: &mut Rng) -> EntOpts {
        let mut o = EntOpts::default();
        if rng.chance(1, 2) {
            o.min = Some(rng.below(4));
        }
        if rng.chance(1, 2) {
            o.max = Some(if rng.chance(1, 6) { usize::MAX } else { rng.below(5) });
        }
        o.min_first = rng.chance(1, 2);
        match rng.below(6) {
            0 => o.dirs = true,
            1 => o.files = true,
            2 => {
                o.filter = Some(match rng.below(3) {
                    0 => Filter::NameMod { m: 2 + rng.below(2) as u64, r: rng.below(2) as u64 },
                    1 => Filter::IsLink,
                    _ => Filter::NotLink,
                })
            },
            _ => {},
        }
        if o.filter.is_some() && rng.chance(1, 3) {
            // a custom filter on top of a kind filter
            if rng.chance(1, 2) {
                o.files = true;
            } else {
                o.dirs = true;
            }
        }
        o.follow = rng.chance(1, 3);
        o.sort_by_name = rng.chance(1, 3);
        match rng.below(7) {
            0 => o.dirs_first = true,
            1 => o.files_first = true,
            2 => {
                // both: grouped by kind, one way or the other
                o.dirs_first = true;
                o.files_first = true;
            },
            _ => {},
        }
        o.contents_first = rng.chance(1, 3);
        o
    }

    fn free_slot(&self, m: &Model, rng: &mut Rng, want_live: bool, write: Option<bool>) -> usize {
        let mut cands = vec![];
        for (i, h) in m.hs.iter().enumerate() {
            let live = h.is_some();
            if live != want_live {
                continue;
            }
            if let (Some(w), Some(h)) = (write, h) {
                let is_w = matches!(h, crate::model::MH::Write { .. });
                if is_w != w {
                    continue;
                }
            }
            cands.push(i);
        }
        if cands.is_empty() {
            rng.below(m.hs.len())
        } else {
            *rng.pick(&cands)
        }
    }

    /// Next operation given the model state
    /// Scale run: the history starts with a prefix that takes the filesystem to a size ordinary
    /// runs never reach - a directory with hundreds of entries, a chain of directories deeper
    /// than the descriptor cap, a file of several hundred kilobytes of multi-byte text - followed
    /// by the calls that have to cope with it. (Thresholds, cut-offs and buffer sizes are tuning
    /// knobs like any other: some runs must sit on the far side of them.)
    pub fn scale_prefix(&mut self, rng: &mut Rng) -> usize {
        let tag = self.run_tag.clone();
        let mut q: Vec<Op> = vec![];
        match rng.below(3) {
            0 => {
                let n = *rng.pick(&[66usize, 70, 130, 260, 300]);
                q.push(Op::MkdirP { p: "/W".into() });
                for i in 0..n {
                    if i % 9 == 4 {
                        q.push(Op::MkdirM { p: format!("/W/d{}", i), mode: *rng.pick(&[0o755u32, 0o700, 0o750]) });
                        q.push(Op::WriteAll { p: format!("/W/d{}/in", i), d: Bytes(format!("<{}.w{}>", tag, i).into_bytes()) });
                    } else {
                        q.push(Op::WriteAll { p: format!("/W/w{}", i), d: Bytes(format!("<{}.w{}>", tag, i).into_bytes()) });
                    }
                }
                q.push(Op::AllPaths { p: "/W".into() });
                match if n > 1000 { rng.below(3) } else { rng.below(6) } {
                    0 => q.push(Op::RemoveAll { p: "/W".into() }),
                    1 => q.push(Op::Copy { s: "/W".into(), d: "/W2".into() }),
                    2 => q.push(Op::MoveP { s: "/W".into(), d: "/V".into() }),
                    3 => q.push(Op::ChmodB { p: "/W".into(), calls: vec![ChmodCall::Files(0o600), ChmodCall::Recurse] }),
                    4 => q.push(Op::Entries { p: "/W".into(), o: EntOpts { sort_by_name: true, contents_first: rng.chance(1, 2), ..EntOpts::default() } }),
                    _ => q.push(Op::Files { p: "/W".into() }),
                }
                q.push(Op::AllPaths { p: "/".into() });
            },
            1 => {
                let depth = *rng.pick(&[9usize, 12, 41, 45, 52, 58]);
                let mut p = String::from("/D");
                for i in 0..depth {
                    p.push_str(if i % 2 == 0 { "/a" } else { "/b" });
                }
                q.push(Op::MkdirP { p: p.clone() });
                q.push(Op::WriteAll { p: format!("{}/leaf", p), d: Bytes(format!("<{}.leaf>", tag).into_bytes()) });
                q.push(Op::AllFiles { p: "/".into() });
                match rng.below(5) {
                    0 => q.push(Op::Copy { s: "/D".into(), d: "/D2".into() }),
                    1 => q.push(Op::RemoveAll { p: "/D".into() }),
                    2 => q.push(Op::Entries { p: "/D".into(), o: EntOpts { follow: rng.chance(1, 2), ..EntOpts::default() } }),
                    3 => q.push(Op::ChownB { p: "/D".into(), calls: vec![ChownCall::Owner(5, 7), ChownCall::Recurse(true)] }),
                    _ => q.push(Op::MoveP { s: "/D/a".into(), d: "/E".into() }),
                }
                q.push(Op::AllPaths { p: "/".into() });
            },
            _ => {
                // several hundred kilobytes, multi-byte text at odd offsets, lines across any block size
                let unit = *rng.pick(&["\u{e9}", "\u{20ac}", "ab\u{e9}\n", "\u{1f600}x"]);
                let n = *rng.pick(&[5000usize, 33000, 70000, 140000]);
                let mut d = format!("<{}.big>", tag).into_bytes();
                if rng.chance(1, 2) {
                    d.push(b'x');
                }
                for _ in 0..n {
                    d.extend_from_slice(unit.as_bytes());
                }
                q.push(Op::MkdirP { p: "/B".into() });
                q.push(Op::WriteAll { p: "/B/big".into(), d: Bytes(d.clone()) });
                q.push(Op::ReadAll { p: "/B/big".into() });
                q.push(Op::ReadLines { p: "/B/big".into() });
                // shrink, then grow within the room the longer content left behind (buffer reuse)
                let head = format!("<{}.re>", tag).into_bytes();
                for part in [2usize, 3, 4] {
                    let mut e = head.clone();
                    for _ in 0..(n * part / 5) {
                        e.extend_from_slice(unit.as_bytes());
                    }
                    q.push(Op::WriteAll { p: "/B/re".into(), d: Bytes(if part == 2 { d.clone() } else { e.clone() }) });
                    if part == 3 {
                        q.push(Op::AppendLine { p: "/B/re".into(), s: "grown".into() });
                    }
                    q.push(Op::ReadAll { p: "/B/re".into() });
                }
                q.push(Op::OpenAppend { h: 0, p: "/B/big".into() });
                q.push(Op::HWrite { h: 0, d: Bytes(format!("<{}.tail>", tag).into_bytes()) });
                q.push(Op::HFlush { h: 0 });
                q.push(Op::AppendAll { p: "/B/big".into(), d: Bytes(b"<after>".to_vec()) });
                q.push(Op::HDrop { h: 0 });
                q.push(Op::OpenWrite { h: 1, p: "/B/w".into() });
                q.push(Op::HWrite { h: 1, d: Bytes(d.clone()) });
                q.push(Op::HWrite { h: 1, d: Bytes(b"<more>".to_vec()) });
                q.push(Op::HDrop { h: 1 });
                q.push(Op::ReadAll { p: "/B/w".into() });
                q.push(Op::Copy { s: "/B/big".into(), d: "/B/copy".into() });
                q.push(Op::ReadAll { p: "/B/copy".into() });
                // more lines than any batch size, the last one empty
                let k = *rng.pick(&[512usize, 513, 1024, 1500]);
                let mut ls: Vec<String> = (0..k).map(|i| format!("line {}", i)).collect();
                ls.push(String::new());
                q.push(Op::WriteLines { p: "/B/lines".into(), ls: ls.clone() });
                q.push(Op::AppendLines { p: "/B/lines".into(), ls });
                q.push(Op::ReadAll { p: "/B/lines".into() });
                // the read_all macro on text that differs only after the first 64 KiB
                if self.profile.name != "assert-macros" {
                    // (only the macro workload calls macros)
                } else if let Ok(text) = String::from_utf8(d.clone()) {
                    q.push(Op::WriteAll { p: "/B/text".into(), d: Bytes(d.clone()) });
                    let mut near = text.clone();
                    near.push('!');
                    q.push(Op::Macro { name: "read_all".into(), a: "/B/text".into(), b: None, mode: None, d: Some(Bytes(text.into_bytes())) });
                    q.push(Op::Macro { name: "read_all".into(), a: "/B/text".into(), b: None, mode: None, d: Some(Bytes(near.into_bytes())) });
                }
            },
        }
        let n = q.len();
        self.queue = q.into_iter().collect();
        n
    }

    pub fn next_op(&mut self, m: &Model, rng: &mut Rng) -> Op {
        if let Some(op) = self.queue.pop_front() {
            self.step += 1;
            return op;
        }
        let ws: Vec<u32> = self.enabled.iter().map(|x| x.1).collect();
        let kind = self.enabled[rng.weighted(&ws)].0;
        self.build(kind, m, rng)
    }

    pub fn build(&mut self, kind: &str, m: &Model, rng: &mut Rng) -> Op {
        self.step += 1;
        let busy = m.busy_paths();
        // content mutators avoid files with a live write handle (conflicting writers are undefined)
        let avoid_busy = |p: String, me: &Gen, rng: &mut Rng| -> String {
            if busy.contains(&p) {
                me.fresh_child(m, rng)
            } else {
                p
            }
        };
        const FILEISH: &[K] = &[K::File, K::File, K::LinkF];
        const LINKS: &[K] = &[K::LinkF, K::LinkD];
        match kind {
            "abs" => {
                if (self.profile.name == "spelling-independence" || self.profile.name == "backend-differential") && rng.chance(1, 6) {
                    // strings on which the documented resolution is unambiguous but easy to get
                    // wrong: protocol markers that are not prefixes, stacked markers, odd casing,
                    // dots next to separators, expansion errors
                    let n = self.name(rng);
                    let specials = [
                        format!("x{}://{}", "ftp", n),
                        format!("/{}/http://h/{}", n, n),
                        format!("{}/file://{}", n, n),
                        format!("FTP://{}", n),
                        format!("hTTps:///{}/../{}", n, n),
                        format!("file:/{}", n),
                        format!("file://file://{}", n),
                        format!("ftp://{}//{}/./", n, n),
                        format!("./{}/.././{}/", n, n),
                        format!("{}/../../{}", n, n),
                        format!("..//{}", n),
                        format!("/{}/./../{}//", n, n),
                        "~".to_string(),
                        format!("~/{}/..", n),
                        format!("~{}", n),
                        format!("{}~", n),
                        format!("$RV_A/{}", n),
                        format!("${{RV_A}}{}", n),
                        format!("{}$RV_A", n),
                        format!("/$RV_UNSET/{}", n),
                        format!("/{}/${{}}", n),
                        format!("/{}$", n),
                        // relative text after a protocol marker that changes length when lowercased
                        format!("file://\u{130}stanbul/{}", n),
                        format!("FTP://\u{212a}x/{}", n),
                        format!("https://\u{1e9e}/{}", n),
                        // blanks at the edges belong to the name
                        format!("{} ", n),
                        format!(" {}", n),
                        format!("/{}/\t{}", n, n),
                        " ".to_string(),
                        "file://~".to_string(),
                        format!("file://~/{}", n),
                        format!("HTTPS://~/{}", n),
                    ];
                    return Op::Abs { p: rng.pick(&specials).clone() };
                }
                let p = self.p_target(m, rng, None);
                Op::Abs { p: self.arg(p, m, rng) }
            },
            "exists" | "is_dir" | "is_file" | "is_symlink" | "is_symlink_dir" | "is_symlink_file" | "is_exec" | "is_readonly" | "mode" | "uid" | "gid"
            | "owner" | "entry" => {
                let p = self.p_target(m, rng, None);
                let p = self.arg(p, m, rng);
                match kind {
                    "exists" => Op::Exists { p },
                    "is_dir" => Op::IsDir { p },
                    "is_file" => Op::IsFile { p },
                    "is_symlink" => Op::IsSymlink { p },
                    "is_symlink_dir" => Op::IsSymlinkDir { p },
                    "is_symlink_file" => Op::IsSymlinkFile { p },
                    "is_exec" => Op::IsExec { p },
                    "is_readonly" => Op::IsReadonly { p },
                    "mode" => Op::Mode { p },
                    "uid" => Op::Uid { p },
                    "gid" => Op::Gid { p },
                    "owner" => Op::Owner { p },
                    _ => Op::Entry { p },
                }
            },
            "readlink" | "readlink_abs" => {
                let p = self.p_target(m, rng, Some(LINKS));
                let p = self.arg(p, m, rng);
                if kind == "readlink" {
                    Op::Readlink { p }
                } else {
                    Op::ReadlinkAbs { p }
                }
            },
            "read_all" | "read_lines" => {
                let p = self.p_target(m, rng, Some(FILEISH));
                let p = self.arg(p, m, rng);
                if kind == "read_all" {
                    Op::ReadAll { p }
                } else {
                    Op::ReadLines { p }
                }
            },
            "paths" | "dirs" | "files" | "all_paths" | "all_dirs" | "all_files" => {
                let p = self.p_target(m, rng, Some(&[K::Dir, K::Dir, K::Dir, K::LinkD]));
                let p = self.arg(p, m, rng);
                match kind {
                    "paths" => Op::Paths { p },
                    "dirs" => Op::Dirs { p },
                    "files" => Op::Files { p },
                    "all_paths" => Op::AllPaths { p },
                    "all_dirs" => Op::AllDirs { p },
                    _ => Op::AllFiles { p },
                }
            },
            "config_dir" => Op::ConfigDir { name: self.name(rng) },
            "cwd" => Op::Cwd,
            "root" => Op::Root,
            "entries" => {
                let p = self.p_target(m, rng, Some(&[K::Dir, K::Dir, K::Dir, K::LinkD, K::File]));
                Op::Entries { p: self.arg(p, m, rng), o: self.ent_opts(rng) }
            },
            "mkdir_p" => {
                if rng.chance(1, 30) {
                    // the places config_dir() searches
                    let home = m.env.get("HOME").cloned().unwrap_or_else(|| "/".into());
                    let base = if rng.chance(1, 2) { "/etc/xdg".to_string() } else { crate::refpath::mash(&home, ".config") };
                    return Op::MkdirP { p: join(&base, &self.name(rng)) };
                }
                let p = self.p_create(m, rng);
                Op::MkdirP { p: self.arg(p, m, rng) }
            },
            "mkdir_m" => {
                let p = self.p_create(m, rng);
                Op::MkdirM { p: self.arg(p, m, rng), mode: self.mode(rng) }
            },
            "mkfile" => {
                let p = self.p_create(m, rng);
                Op::Mkfile { p: self.arg(p, m, rng) }
            },
            "mkfile_m" => {
                let p = self.p_create(m, rng);
                Op::MkfileM { p: self.arg(p, m, rng), mode: self.mode(rng) }
            },
            "write_all" | "append_all" | "append_line" | "append_lines" | "write_lines" => {
                let p = if rng.chance(1, 2) { self.p_target(m, rng, Some(FILEISH)) } else { self.p_create(m, rng) };
                let p = avoid_busy(p, self, rng);
                let p = self.arg(p, m, rng);
                match kind {
                    "write_all" => Op::WriteAll { p, d: self.data(rng) },
                    "append_all" => Op::AppendAll { p, d: self.data(rng) },
                    "append_line" => {
                        let l = self.lines(rng);
                        Op::AppendLine { p, s: l.into_iter().next().unwrap_or_default() }
                    },
                    "append_lines" => Op::AppendLines { p, ls: self.lines(rng) },
                    _ => Op::WriteLines { p, ls: self.lines(rng) },
                }
            },
            "remove" => {
                let p = self.p_target(m, rng, None);
                Op::Remove { p: self.arg(p, m, rng) }
            },
            "remove_all" => {
                let mut p = self.p_target(m, rng, None);
                if p == "/" && !rng.chance(1, 20) {
                    p = self.fresh_child(m, rng);
                }
                Op::RemoveAll { p: self.arg(p, m, rng) }
            },
            "move_p" | "copy" | "copy_b" => {
                let s = self.p_target(m, rng, None);
                let d = match rng.below(10) {
                    0..=3 => self.existing(m, rng, Some(&[K::Dir])).unwrap_or_else(|| "/".into()),
                    4..=6 => self.fresh_child(m, rng),
                    7 => self.existing(m, rng, None).unwrap_or_else(|| "/".into()),
                    _ => self.random_path(rng),
                };
                let s = self.arg(s, m, rng);
                let d = self.arg(d, m, rng);
                match kind {
                    "move_p" => Op::MoveP { s, d },
                    "copy" => Op::Copy { s, d },
                    _ => {
                        let mut calls = vec![];
                        match rng.below(5) {
                            0 => calls.push(CopyCall::ChmodAll(self.mode(rng))),
                            1 => calls.push(CopyCall::ChmodDirs(self.mode(rng))),
                            2 => calls.push(CopyCall::ChmodFiles(self.mode(rng))),
                            _ => {},
                        }
                        if rng.chance(1, 6) {
                            // chained option calls: the last chmod_* call decides
                            calls.push(match rng.below(3) {
                                0 => CopyCall::ChmodAll(self.mode(rng)),
                                1 => CopyCall::ChmodDirs(self.mode(rng)),
                                _ => CopyCall::ChmodFiles(self.mode(rng)),
                            });
                        }
                        if rng.chance(1, 3) {
                            calls.push(CopyCall::Follow(rng.chance(3, 4)));
                        }
                        Op::CopyB { s, d, calls }
                    },
                }
            },
            "b_keep" | "b_exec" | "b_drop" => {
                let free = m.bs.iter().position(|x| x.is_none());
                let live: Vec<usize> = m.bs.iter().enumerate().filter(|(_, x)| x.is_some()).map(|(i, _)| i).collect();
                let want = if kind == "b_keep" && free.is_none() {
                    "b_exec"
                } else if kind != "b_keep" && live.is_empty() {
                    "b_keep"
                } else {
                    kind
                };
                match want {
                    "b_keep" => {
                        let b = free.unwrap_or(0);
                        if rng.chance(1, 2) {
                            match self.build("chmod_b", m, rng) {
                                Op::ChmodB { p, calls } => Op::ChmodBKeep { b, p, calls },
                                other => other,
                            }
                        } else {
                            match self.build("chown_b", m, rng) {
                                Op::ChownB { p, calls } => Op::ChownBKeep { b, p, calls },
                                other => other,
                            }
                        }
                    },
                    "b_exec" => Op::BExec { b: *rng.pick(&live[..]) },
                    _ => Op::BDrop { b: *rng.pick(&live[..]) },
                }
            },
            "chmod_b_deferred" | "chown_b_deferred" => {
                let t = self.p_target(m, rng, None);
                let cwd = self.p_target(m, rng, Some(&[K::Dir]));
                let cur = m.t.cwd.clone();
                let p = if rng.chance(2, 3) {
                    if t == cur {
                        ".".to_string()
                    } else {
                        refpath::relative(&t, &cur)
                    }
                } else {
                    t
                };
                if kind == "chmod_b_deferred" {
                    let mut calls = vec![ChmodCall::All(self.mode(rng))];
                    if rng.chance(1, 3) {
                        calls.push(ChmodCall::NoRecurse);
                    }
                    Op::ChmodBDeferred { p, calls, cwd }
                } else {
                    Op::ChownBDeferred { p, calls: vec![ChownCall::Owner(rng.below(4) as u32 + 1, rng.below(4) as u32 + 1)], cwd }
                }
            },
            "copy_b_deferred" => {
                let s = self.p_target(m, rng, None);
                let d = self.fresh_child(m, rng);
                let cwd = self.p_target(m, rng, Some(&[K::Dir]));
                // relative spellings are the point: they mean something else after the cwd moved
                let cur = m.t.cwd.clone();
                let rel = |p: &str| if p == cur { ".".to_string() } else { refpath::relative(p, &cur) };
                let (s, d) = if rng.chance(2, 3) { (rel(&s), rel(&d)) } else { (s, d) };
                Op::CopyBDeferred { s, d, calls: vec![], cwd }
            },
            "symlink" => {
                // now and then close a cycle: a link placed where a dangling link points, pointing back
                if rng.chance(1, 12) {
                    let dangling: Vec<(String, String)> = m
                        .t
                        .nodes
                        .iter()
                        .filter(|(_, n)| n.kind == crate::tree::Kind::Link)
                        .filter_map(|(k, n)| n.target.clone().map(|t| (k.clone(), t)))
                        .filter(|(_, t)| m.k(t) == K::Missing && parent(t).map(|p| m.k(&p) == K::Dir).unwrap_or(false))
                        .collect();
                    if !dangling.is_empty() {
                        let (lk, tg) = rng.pick(&dangling[..]).clone();
                        return Op::Symlink { l: tg, t: lk };
                    }
                }
                let l = self.p_create(m, rng);
                let tcanon = if rng.chance(3, 4) { self.p_target(m, rng, None) } else { self.random_path(rng) };
                // target spelling: absolute, or relative to the link's directory
                let lp = parent(&l).unwrap_or_else(|| "/".into());
                let t = if rng.chance(1, 2) {
                    // absolute, sometimes in an unclean spelling that stays absolute
                    let sp = self.respell(&tcanon, m, rng);
                    if sp.starts_with('/') {
                        sp
                    } else {
                        tcanon.clone()
                    }
                } else {
                    let r = if tcanon == lp { ".".to_string() } else { refpath::relative(&tcanon, &lp) };
                    if rng.chance(1, 4) {
                        format!("./{}", r)
                    } else if self.profile.name == "symlinks" && rng.chance(1, 10) {
                        // climbing further than the link is deep: clamped at the root, like a path
                        format!("{}{}", "../".repeat(crate::tree::depth(&lp) + rng.range(1, 2)), tcanon.trim_start_matches('/'))
                    } else {
                        r
                    }
                };
                Op::Symlink { l: self.arg(l, m, rng), t: self.hostile_or(t, rng) }
            },
            "set_cwd" => {
                let p = self.p_target(m, rng, Some(&[K::Dir, K::LinkD]));
                Op::SetCwd { p: self.arg(p, m, rng) }
            },
            "chmod" => {
                let p = self.p_target(m, rng, None);
                Op::Chmod { p: self.arg(p, m, rng), mode: self.mode(rng) }
            },
            "chmod_b" => {
                let p = self.p_target(m, rng, None);
                let mut calls = vec![];
                match rng.below(8) {
                    0 => calls.push(ChmodCall::All(self.mode(rng))),
                    1 => calls.push(ChmodCall::Dirs(self.mode(rng))),
                    2 => calls.push(ChmodCall::Files(self.mode(rng))),
                    3 => {
                        calls.push(ChmodCall::Dirs(self.mode(rng)));
                        calls.push(ChmodCall::Files(self.mode(rng)));
                    },
                    4 => calls.push(ChmodCall::Readonly),
                    5 => calls.push(ChmodCall::Secure),
                    _ => calls.push(ChmodCall::Sym(self.sym(rng))),
                }
                if rng.chance(1, 8) {
                    // an octal mode for one kind next to a symbolic expression for the other
                    calls.push(match rng.below(3) {
                        0 => ChmodCall::Dirs(self.mode(rng)),
                        1 => ChmodCall::Files(self.mode(rng)),
                        _ => ChmodCall::Sym(self.sym(rng)),
                    });
                }
                if rng.chance(1, 3) {
                    calls.push(ChmodCall::Follow);
                }
                match rng.below(4) {
                    0 => calls.push(ChmodCall::NoRecurse),
                    1 => calls.push(ChmodCall::Recurse),
                    _ => {},
                }
                if rng.chance(1, 2) {
                    rng.shuffle(&mut calls);
                }
                Op::ChmodB { p: self.arg(p, m, rng), calls }
            },
            "chown" => {
                let p = self.p_target(m, rng, None);
                if self.profile.hostile >= 10 && rng.chance(1, 8) {
                    return Op::Chown { p: self.arg(p, m, rng), uid: *rng.pick(&[0u32, u32::MAX, 65534]), gid: *rng.pick(&[0u32, u32::MAX]) };
                }
                Op::Chown { p: self.arg(p, m, rng), uid: rng.below(5) as u32 + 1000, gid: rng.below(5) as u32 + 2000 }
            },
            "chown_b" => {
                let p = self.p_target(m, rng, None);
                let mut calls = vec![];
                match rng.below(3) {
                    0 => calls.push(ChownCall::Uid(rng.below(5) as u32 + 1000)),
                    1 => calls.push(ChownCall::Gid(rng.below(5) as u32 + 2000)),
                    _ => calls.push(ChownCall::Owner(rng.below(5) as u32 + 1000, rng.below(5) as u32 + 2000)),
                }
                if rng.chance(1, 3) {
                    calls.push(ChownCall::Follow);
                }
                if rng.chance(1, 2) {
                    calls.push(ChownCall::Recurse(rng.chance(1, 2)));
                }
                Op::ChownB { p: self.arg(p, m, rng), calls }
            },
            "macro" => {
                let checking = ["exists", "no_exists", "is_dir", "no_dir", "is_file", "no_file", "is_symlink", "no_symlink", "read_all", "readlink", "readlink_abs"];
                let acting = ["mkdir_p", "mkdir_m", "mkfile", "write_all", "copyfile", "symlink", "remove", "remove_all"];
                let name = if rng.chance(3, 5) { *rng.pick(&checking) } else { *rng.pick(&acting) };
                let a = match name {
                    "readlink" | "readlink_abs" => self.p_target(m, rng, Some(LINKS)),
                    "read_all" | "copyfile" => self.p_target(m, rng, Some(FILEISH)),
                    "mkdir_p" | "mkdir_m" | "mkfile" | "write_all" | "symlink" => self.p_create(m, rng),
                    _ => self.p_target(m, rng, None),
                };
                let mut b = None;
                let mut d = None;
                let mut mode = None;
                match name {
                    "read_all" => {
                        // mostly the right content, sometimes a near miss
                        let cur = m.abs(&a).ok().and_then(|p| m.t.nodes.get(&p).and_then(|n| n.data.clone()));
                        d = Some(match (cur, rng.below(4)) {
                            (Some(c), 0..=1) => c,
                            (Some(c), 2) => Bytes([c.0.clone(), b"\n".to_vec()].concat()),
                            _ => Bytes(b"something else".to_vec()),
                        });
                    },
                    // any data a file may hold, incl. empty and not valid UTF-8
                    "write_all" => d = Some(if rng.chance(1, 2) { self.data(rng) } else { Bytes(format!("<m{}.{}>text", self.run_tag, self.step).into_bytes()) }),
                    "readlink" | "readlink_abs" => {
                        let node = m.abs(&a).ok().and_then(|p| m.t.nodes.get(&p).cloned());
                        let (rel, tgt) = node.map(|n| (n.rel.unwrap_or_default(), n.target.unwrap_or_default())).unwrap_or_default();
                        let right = if name == "readlink" { rel } else { tgt };
                        b = Some(match rng.below(5) {
                            0..=1 if !right.is_empty() => right,
                            2 if !right.is_empty() => format!("/zz{}", if right.starts_with('/') { right.clone() } else { format!("/{}", right) }),
                            3 if !right.is_empty() => format!("x{}", right),
                            _ => self.random_path(rng),
                        });
                    },
                    "copyfile" => b = Some(if rng.chance(1, 2) { self.fresh_child(m, rng) } else { self.p_target(m, rng, None) }),
                    "symlink" => {
                        let tcanon = self.p_target(m, rng, None);
                        // absolute, or relative to the directory of the link (not to the cwd)
                        let lp = parent(&a).unwrap_or_else(|| "/".into());
                        b = Some(if rng.chance(1, 2) {
                            tcanon
                        } else if tcanon == lp {
                            ".".to_string()
                        } else {
                            refpath::relative(&tcanon, &lp)
                        });
                    },
                    "mkdir_m" => mode = Some(0o40000 | self.mode(rng)),
                    _ => {},
                }
                let a = self.arg(a, m, rng);
                Op::Macro { name: name.to_string(), a, b, mode, d }
            },
            "path_fn" => {
                let fns = [
                    "trim_prefix", "trim_suffix", "trim_ext", "trim_first", "trim_last", "trim_protocol", "mash", "relative", "clean", "expand", "base", "dir", "name",
                    "ext", "first", "last", "concat", "has", "parse_paths", "str_ext",
                ];
                let pick = |me: &mut Gen, rng: &mut Rng| -> String {
                    match rng.below(4) {
                        0 => rng.pick(HOSTILE).to_string(),
                        1 => me.random_path(rng),
                        2 => {
                            // random text over an adversarial alphabet
                            let alpha = ['/', '.', '~', '$', '{', '}', ':', 'a', 'é', '日', '😀', 'İ', ' ', '\\'];
                            (0..rng.below(9)).map(|_| *rng.pick(&alpha)).collect()
                        },
                        _ => format!("{}{}", rng.pick(HOSTILE), me.name(rng)),
                    }
                };
                let a = pick(self, rng);
                let b = if rng.chance(1, 3) { a.chars().take(rng.below(4)).collect() } else { pick(self, rng) };
                Op::PathFn { f: rng.pick(&fns).to_string(), a, b }
            },
            "open_read" => {
                let h = self.free_slot(m, rng, false, None);
                let p = self.p_target(m, rng, Some(FILEISH));
                Op::OpenRead { h, p: self.arg(p, m, rng) }
            },
            "open_write" | "open_append" => {
                let h = self.free_slot(m, rng, false, None);
                let p = if rng.chance(2, 3) { self.p_target(m, rng, Some(&[K::File])) } else { self.p_create(m, rng) };
                // a write handle never shares its file with another live writer; append handles may
                let p = if kind == "open_write" || rng.chance(1, 2) { avoid_busy(p, self, rng) } else { p };
                let p = self.arg(p, m, rng);
                if kind == "open_write" {
                    Op::OpenWrite { h, p }
                } else {
                    Op::OpenAppend { h, p }
                }
            },
            "h_read" => Op::HRead { h: self.free_slot(m, rng, true, Some(false)), len: *rng.pick(&[0, 1, 2, 3, 5, 8, 64, 100_000]) },
            "h_read_to_end" => Op::HReadToEnd { h: self.free_slot(m, rng, true, Some(false)) },
            "h_seek" => {
                let w = *rng.pick(&[Whence::Start, Whence::Current, Whence::End]);
                let off: i64 = match rng.below(10) {
                    0 => i64::MIN,
                    1 => i64::MAX,
                    2 => -1,
                    3 => 0,
                    4 => -(rng.below(40) as i64),
                    5 => 1 << 40,
                    _ => rng.below(40) as i64,
                };
                let off = if matches!(w, Whence::Start) && off < 0 && !rng.chance(1, 4) { -off.max(-1000) } else { off };
                Op::HSeek { h: self.free_slot(m, rng, true, Some(false)), w, off }
            },
            "h_write" => Op::HWrite { h: self.free_slot(m, rng, true, Some(true)), d: self.data(rng) },
            "h_flush" => Op::HFlush { h: self.free_slot(m, rng, true, Some(true)) },
            "h_drop" => Op::HDrop { h: self.free_slot(m, rng, true, None) },
            "h_drop_unwind" => Op::HDropUnwind { h: self.free_slot(m, rng, true, None) },
            _ => Op::Cwd,
        }
    }
}
