//! Simulator side of the seams added to rivia under cfg(rivia_verif): directory enumeration order
//! and the traversal descriptor cap (sequential worlds). The scheduler of the CONC world has its
//! own Hooks implementation in sched.rs which embeds these.
use std::{
    path::{Path, PathBuf},
    sync::Arc,
};

use serde::{Deserialize, Serialize};

use crate::prng::{hash_str, mix, Rng};

#[derive(Clone, Copy, Debug, PartialEq, Eq, Serialize, Deserialize)]
pub enum OrderMode {
    Sorted,
    Reverse,
    Permute,
}

#[derive(Clone, Debug, PartialEq, Eq, Serialize, Deserialize)]
pub struct Knobs {
    pub order: OrderMode,
    pub order_key: u64,
    pub max_desc: Option<u16>,
}

impl Default for Knobs {
    fn default() -> Self {
        Knobs { order: OrderMode::Sorted, order_key: 0, max_desc: None }
    }
}

pub fn apply_order(k: &Knobs, dir: &Path, items: &mut Vec<PathBuf>) {
    items.sort();
    match k.order {
        OrderMode::Sorted => {},
        OrderMode::Reverse => items.reverse(),
        OrderMode::Permute => {
            let mut r = Rng::new(mix(&[k.order_key, hash_str(&dir.to_string_lossy())]));
            r.shuffle(items);
        },
    }
}

pub struct SeqHooks {
    pub knobs: Knobs,
    pub order_calls: std::sync::atomic::AtomicU64,
}

impl rivia::verif::Hooks for SeqHooks {
    fn dir_order(&self, dir: &Path, items: &mut Vec<PathBuf>) {
        self.order_calls.fetch_add(1, std::sync::atomic::Ordering::Relaxed);
        apply_order(&self.knobs, dir, items);
    }
    fn max_descriptors(&self) -> Option<u16> {
        self.knobs.max_desc
    }
}

pub fn install_seq(knobs: &Knobs) -> Arc<SeqHooks> {
    let h = Arc::new(SeqHooks { knobs: knobs.clone(), order_calls: Default::default() });
    rivia::verif::install(Some(h.clone()));
    h
}

pub fn uninstall() {
    rivia::verif::install(None);
}
