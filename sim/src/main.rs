//! rvsim: deterministic simulation with fault injection for phR0ze/rivia.
//! Supervisor + worker processes; one seed decides a run; see /verif/DESIGN.md.
mod conc;
mod diffw;
mod envw;
mod exec;
mod gen;
mod hooks;
mod model;
mod ops;
mod props;
mod prng;
mod refpath;
mod report;
mod seq;
mod supervisor;
mod traverse;
mod tree;

use std::sync::atomic::{AtomicBool, AtomicU64, Ordering};

pub static TRACE: AtomicBool = AtomicBool::new(false);
pub static PROGRESS: AtomicU64 = AtomicU64::new(0);

fn usage() -> ! {
    eprintln!("usage: rvsim check <ID> <quick|thorough> | replay <file> | selftest <ID> [n]");
    std::process::exit(2)
}

fn main() {
    let args: Vec<String> = std::env::args().collect();
    if args.len() < 2 {
        usage();
    }
    let code = match args[1].as_str() {
        "check" if args.len() >= 4 => supervisor::check(&args[2], &args[3], &args[4..]),
        "worker" if args.len() >= 8 => supervisor::worker(&args[2..]),
        "trace" if args.len() >= 6 => supervisor::trace(&args[2..]),
        "replay" if args.len() >= 3 => supervisor::replay_cmd(&args[2], args.iter().any(|a| a == "--inner")),
        "selftest" if args.len() >= 3 => supervisor::selftest(&args[2..]),
        _ => usage(),
    };
    let _ = PROGRESS.load(Ordering::Relaxed);
    std::process::exit(code);
}
