//! RefFs: a plain reference tree file system written from the trait documentation, independent of
//! rivia code. For every call it returns the *set of acceptable* (outcome, successor state) pairs:
//! a singleton where the documentation or the property fixes the behaviour, wider where it is silent.
use std::collections::BTreeSet;

use crate::{
    ops::*,
    refpath::{self, Env},
    tree::{self, base, is_under, join, parent, Kind, Node, Tree},
};

/// Requirement on the real outcome
#[derive(Clone, Debug)]
pub enum Expect {
    Exact(Outcome),
    OkOneOf(Vec<Val>),
    OkAny,
    ErrAny,
    /// Ok(Val::Entries) judged by traverse::check against the pre-state
    Traversal,
    /// macro panics and the message contains all of these
    PanicWith(Vec<String>),
    Any,
    /// an assert macro where the model does not decide: it may pass or panic
    AnyOrPanic,
}

#[derive(Clone, Debug)]
pub enum Next {
    Same,
    State(Box<Tree>),
    /// a partial / undocumented effect is tolerated: the real state is adopted after the integrity
    /// check; only entries under the given roots may differ from the pre-state
    Resync(Vec<String>),
}

#[derive(Clone, Debug)]
pub struct Alt {
    pub expect: Expect,
    pub next: Next,
    /// paths whose mode is not compared (parents created on the fly)
    pub free_mode: Vec<String>,
    /// paths whose content is not compared
    pub free_data: Vec<String>,
    /// links whose recorded target kind is not compared
    pub free_kind: Vec<String>,
}

fn alt(expect: Expect, next: Next) -> Alt {
    Alt { expect, next, free_mode: vec![], free_data: vec![], free_kind: vec![] }
}
fn ok(v: Val) -> Expect {
    Expect::Exact(Outcome::Ok(v))
}
fn err(k: &str) -> Expect {
    Expect::Exact(Outcome::Err(k.to_string()))
}
fn same(e: Expect) -> Vec<Alt> {
    vec![alt(e, Next::Same)]
}
fn st(t: Tree) -> Next {
    Next::State(Box::new(t))
}

/// Model of a live handle
/// a builder kept across steps: what it was given when it was made
#[derive(Clone, Debug)]
pub enum MB {
    Chmod { path: String, calls: Vec<ChmodCall> },
    Chown { path: String, calls: Vec<ChownCall> },
}

#[derive(Clone, Debug)]
pub enum MH {
    Read { data: Vec<u8>, pos: u64 },
    Write { path: String, buf: Vec<u8>, synced: usize, append: bool, flushed: bool },
}

#[derive(Clone, Debug)]
pub struct Model {
    pub t: Tree,
    pub env: Env,
    pub hs: Vec<Option<MH>>,
    pub bs: Vec<Option<MB>>,
    /// strictness switches (per property profile)
    pub strict_listing_links: bool,
}

#[derive(Clone, Copy, Debug, PartialEq, Eq)]
pub enum K {
    Missing,
    Dir,
    File,
    LinkF,
    LinkD,
}

impl K {
    pub fn name(&self) -> &'static str {
        match self {
            K::Missing => "missing",
            K::Dir => "dir",
            K::File => "file",
            K::LinkF => "link-file",
            K::LinkD => "link-dir",
        }
    }
}

pub fn lines_of(data: &[u8]) -> Option<Vec<String>> {
    // std::io::BufRead::lines: split on \n, strip one trailing \r, no final empty line
    let s = std::str::from_utf8(data).ok()?;
    let mut out = vec![];
    let mut rest = s;
    while !rest.is_empty() {
        let (line, r) = match rest.find('\n') {
            Some(i) => (&rest[..i], &rest[i + 1..]),
            None => (rest, ""),
        };
        let line = line.strip_suffix('\r').unwrap_or(line);
        out.push(line.to_string());
        rest = r;
    }
    Some(out)
}

/// Independent evaluator of the documented symbolic grammar `[dfa]:[ugoa][-+=][rwx]` (comma
/// repeatable). Returns Err when a clause is malformed, otherwise the new permission bits.
pub fn sym_mode(cur: u32, is_dir: bool, sym: &str) -> Result<u32, ()> {
    let mut mode = cur;
    for clause in sym.split(',') {
        let (tgt, rest) = clause.split_once(':').ok_or(())?;
        if tgt.is_empty() || !tgt.chars().all(|c| "dfa".contains(c)) {
            return Err(());
        }
        let opi = rest.find(|c| c == '-' || c == '+' || c == '=').ok_or(())?;
        let (groups, oprest) = rest.split_at(opi);
        let op = oprest.chars().next().unwrap();
        let perms = &oprest[1..];
        if groups.is_empty() || !groups.chars().all(|c| "ugoa".contains(c)) {
            return Err(());
        }
        if perms.is_empty() || !perms.chars().all(|c| "rwx".contains(c)) {
            return Err(());
        }
        let applies = tgt.chars().all(|c| c == 'a' || (c == 'd' && is_dir) || (c == 'f' && !is_dir));
        if !applies {
            continue;
        }
        let mut g = 0;
        for c in groups.chars() {
            g |= match c {
                'u' => 0o700,
                'g' => 0o070,
                'o' => 0o007,
                _ => 0o777,
            };
        }
        let mut p = 0;
        for c in perms.chars() {
            p |= match c {
                'r' => 0o444,
                'w' => 0o222,
                _ => 0o111,
            };
        }
        match op {
            '-' => mode &= !(g & p),
            '+' => mode |= g & p,
            _ => mode = (mode & !g) | (g & p),
        }
    }
    Ok(mode)
}

#[derive(Clone, Debug, Default)]
pub struct ChmodSpec {
    pub dirs: u32,
    pub files: u32,
    pub sym: String,
    pub follow: bool,
    pub recursive: bool,
}

pub fn chmod_spec(calls: &[ChmodCall]) -> ChmodSpec {
    let mut s = ChmodSpec { recursive: true, ..Default::default() };
    for c in calls {
        match c {
            ChmodCall::All(m) => {
                s.dirs = *m;
                s.files = *m;
            },
            ChmodCall::Dirs(m) => s.dirs = *m,
            ChmodCall::Files(m) => s.files = *m,
            ChmodCall::Sym(x) => s.sym = x.clone(),
            ChmodCall::Follow => s.follow = true,
            ChmodCall::Recurse => s.recursive = true,
            ChmodCall::NoRecurse => s.recursive = false,
            ChmodCall::Readonly => s.sym = "f:a+r,f:a-wx".into(),
            ChmodCall::Secure => s.sym = "a:go-rwx".into(),
        }
    }
    s
}

impl Model {
    pub fn new(env: Env) -> Model {
        Model { t: Tree::default(), env, hs: (0..crate::exec::SLOTS).map(|_| None).collect(), bs: vec![None, None], strict_listing_links: false }
    }

    pub fn abs(&self, p: &str) -> Result<String, String> {
        refpath::abs(p, &self.t.cwd, &self.env)
    }

    pub fn k(&self, p: &str) -> K {
        match self.t.nodes.get(p) {
            None => K::Missing,
            Some(n) => match n.kind {
                Kind::Dir => K::Dir,
                Kind::File => K::File,
                Kind::Link => {
                    if n.link_dir {
                        K::LinkD
                    } else {
                        K::LinkF
                    }
                },
            },
        }
    }

    /// Parent rule for creating calls: None when the parent is a real directory
    fn parent_rule(&self, p: &str) -> Option<Vec<Alt>> {
        let par = match parent(p) {
            Some(x) => x,
            None => return None, // root: handled by callers
        };
        match self.k(&par) {
            K::Dir => None,
            K::Missing => Some(same(err("Path::DoesNotExist"))),
            K::File => Some(same(err("Path::IsNotDir"))),
            // a link as parent is outside the documented domain: any error, nothing created
            K::LinkF | K::LinkD => Some(same(Expect::ErrAny)),
        }
    }

    /// true when some strict ancestor of p is a link (argument passes through a link)
    pub fn through_link(&self, p: &str) -> bool {
        let mut cur = parent(p);
        while let Some(c) = cur {
            if matches!(self.k(&c), K::LinkF | K::LinkD) {
                return true;
            }
            cur = parent(&c);
        }
        false
    }

    fn view(&self, p: &str) -> EntryView {
        let n = &self.t.nodes[p];
        let (dir, file, link) = match n.kind {
            Kind::Dir => (true, false, false),
            Kind::File => (false, true, false),
            Kind::Link => (n.link_dir, !n.link_dir, true),
        };
        EntryView {
            path: p.to_string(),
            alt: n.target.clone().unwrap_or_default(),
            rel: n.rel.clone().unwrap_or_default(),
            dir,
            file,
            link,
            mode: n.mode,
            following: false,
            exec: n.mode & 0o111 != 0,
            readonly: n.mode & 0o222 == 0,
            symlink_dir: link && dir,
            symlink_file: link && file,
            file_name: if p == "/" { None } else { Some(base(p).to_string()) },
        }
    }

    pub fn followed(v: &EntryView) -> EntryView {
        let mut f = v.clone();
        if f.link && !f.following {
            f.following = true;
            std::mem::swap(&mut f.path, &mut f.alt);
            f.file_name = if f.path == "/" || f.path.is_empty() { None } else { Some(base(&f.path).to_string()) };
        }
        f
    }

    fn write_content(&self, p: &str, op_append: bool, d: &[u8]) -> Vec<Alt> {
        if p == "/" {
            return same(Expect::ErrAny);
        }
        if let Some(a) = self.parent_rule(p) {
            return a;
        }
        match self.k(p) {
            K::Missing => {
                let mut t = self.t.clone();
                t.nodes.insert(p.to_string(), Node::file(0o100644, d.to_vec()));
                vec![alt(ok(Val::Unit), st(t))]
            },
            K::File => {
                let mut t = self.t.clone();
                let n = t.nodes.get_mut(p).unwrap();
                let mut nd = if op_append { n.data.clone().unwrap_or_default().0 } else { vec![] };
                nd.extend_from_slice(d);
                n.data = Some(Bytes(nd));
                vec![alt(ok(Val::Unit), st(t))]
            },
            K::Dir => same(err("Path::IsNotFile")),
            K::LinkF | K::LinkD => {
                // out of the documented domain: an error, or the effect applied to the target file
                let mut alts = same(Expect::ErrAny);
                let tgt = self.t.nodes[p].target.clone().unwrap_or_default();
                if self.k(&tgt) == K::File {
                    let mut t = self.t.clone();
                    let n = t.nodes.get_mut(&tgt).unwrap();
                    let mut nd = if op_append { n.data.clone().unwrap_or_default().0 } else { vec![] };
                    nd.extend_from_slice(d);
                    n.data = Some(Bytes(nd));
                    alts.push(alt(ok(Val::Unit), st(t)));
                }
                alts
            },
        }
    }

    fn mkfile(&self, p: &str) -> Vec<Alt> {
        if p == "/" {
            return same(Expect::ErrAny);
        }
        if let Some(a) = self.parent_rule(p) {
            return a;
        }
        match self.k(p) {
            K::Missing => {
                let mut t = self.t.clone();
                t.nodes.insert(p.to_string(), Node::file(0o100644, vec![]));
                vec![alt(ok(Val::Path(p.into())), st(t))]
            },
            K::File => same(ok(Val::Path(p.into()))),
            K::Dir => same(err("Path::IsNotFile")),
            K::LinkF | K::LinkD => vec![alt(Expect::ErrAny, Next::Same), alt(ok(Val::Path(p.into())), Next::Same)],
        }
    }

    fn mkdir(&self, p: &str, mode: Option<u32>) -> Vec<Alt> {
        // walk the prefixes
        let mut t = self.t.clone();
        let mut cur = String::from("/");
        let comps: Vec<&str> = p.split('/').filter(|c| !c.is_empty()).collect();
        let n = comps.len();
        for (i, c) in comps.iter().enumerate() {
            cur = join(&cur, c);
            match self.k(&cur) {
                K::Dir => {},
                K::Missing => {
                    // (model state `t` may already hold freshly created ancestors)
                    if !t.nodes.contains_key(&cur) {
                        let m = match mode {
                            Some(m) if m != 0 => (m & 0o7777) | 0o40000,
                            _ => 0o40755,
                        };
                        t.nodes.insert(cur.clone(), Node::dir(m));
                    }
                },
                K::File => return same(err("Path::IsNotDir")),
                K::LinkD if i == n - 1 => {
                    return vec![alt(Expect::ErrAny, Next::Same), alt(ok(Val::Path(p.into())), Next::Same)];
                },
                K::LinkF | K::LinkD => return same(Expect::ErrAny),
            }
        }
        vec![alt(ok(Val::Path(p.into())), st(t))]
    }

    fn remove(&self, p: &str) -> Vec<Alt> {
        if p == "/" {
            return same(Expect::ErrAny);
        }
        match self.k(p) {
            K::Missing => vec![alt(ok(Val::Unit), Next::Same), alt(Expect::ErrAny, Next::Same)],
            K::Dir if !self.t.children(p).is_empty() => same(Expect::ErrAny),
            _ => {
                let mut t = self.t.clone();
                t.nodes.remove(p);
                vec![alt(ok(Val::Unit), st(t))]
            },
        }
    }

    fn remove_all(&self, p: &str) -> Vec<Alt> {
        if p == "/" {
            return vec![alt(Expect::ErrAny, Next::Resync(vec!["/".into()])), alt(ok(Val::Unit), Next::Resync(vec!["/".into()]))];
        }
        match self.k(p) {
            K::Missing => same(ok(Val::Unit)),
            _ => {
                let mut t = self.t.clone();
                for k in self.t.subtree(p) {
                    t.nodes.remove(&k);
                }
                vec![alt(ok(Val::Unit), st(t))]
            },
        }
    }

    fn symlink(&self, l: &str, traw: &str) -> Vec<Alt> {
        let l = match self.abs(l) {
            Ok(x) => x,
            Err(e) => return same(err(&e)),
        };
        let lp = parent(&l).unwrap_or_else(|| "/".into());
        let tjoined = if traw.starts_with('/') { traw.to_string() } else { refpath::mash(&lp, traw) };
        // several error conditions may hold at once; which one is reported is not documented
        let link_in_the_way = l == "/" || self.parent_rule(&l).is_some() || self.k(&l) != K::Missing;
        let tabs = match self.abs(&tjoined) {
            Ok(x) => x,
            Err(e) => return if link_in_the_way { same(Expect::ErrAny) } else { same(err(&e)) },
        };
        if l == "/" {
            return same(Expect::ErrAny);
        }
        if let Some(a) = self.parent_rule(&l) {
            return a;
        }
        if !traw.starts_with('/') && (traw.contains('$') || traw.contains('~')) {
            // expansion inside a target that is joined onto the link's directory: the meaning of
            // an absolute value in a non-leading position belongs to C17, not decided here
            return vec![alt(Expect::ErrAny, Next::Same), alt(Expect::OkAny, Next::Resync(vec![l.clone()]))];
        }
        let link_dir = matches!(self.k(&tabs), K::Dir | K::LinkD);
        let rel = refpath::relative(&tabs, &lp);
        match self.k(&l) {
            K::Missing => {
                let mut t = self.t.clone();
                t.nodes.insert(l.clone(), Node::link(tabs, rel, link_dir));
                vec![alt(ok(Val::Path(l)), st(t))]
            },
            K::LinkF | K::LinkD => {
                // replacing the target or refusing are both fine; Ok while keeping another target is not
                let mut t = self.t.clone();
                let (uid, gid) = (self.t.nodes[&l].uid, self.t.nodes[&l].gid);
                let mut n = Node::link(tabs, rel, link_dir);
                n.uid = uid;
                n.gid = gid;
                t.nodes.insert(l.clone(), n);
                vec![alt(Expect::ErrAny, Next::Same), alt(ok(Val::Path(l)), st(t))]
            },
            K::File | K::Dir => same(Expect::ErrAny),
        }
    }

    /// Entries selected by chmod/chown style traversal: (path, reached through follow)
    fn select(&self, root: &str, recursive: bool, follow: bool) -> Result<Vec<String>, ()> {
        let mut out = vec![];
        let mut seen = BTreeSet::new();
        // stack of (path, chain of followed link targets for loop detection)
        let mut stack: Vec<(String, Vec<String>, usize)> = vec![(root.to_string(), vec![], 0)];
        let mut steps = 0;
        while let Some((p, chain, depth)) = stack.pop() {
            steps += 1;
            if steps > 5000 {
                return Err(());
            }
            match self.k(&p) {
                K::Missing => {},
                K::File => {
                    if seen.insert(p.clone()) {
                        out.push(p);
                    }
                },
                K::Dir => {
                    if seen.insert(p.clone()) {
                        out.push(p.clone());
                    }
                    if recursive {
                        for c in self.t.children(&p) {
                            stack.push((c, chain.clone(), depth + 1));
                        }
                    }
                },
                K::LinkF | K::LinkD => {
                    if !follow {
                        if seen.insert(p.clone()) {
                            out.push(p);
                        }
                    } else {
                        let tgt = self.t.nodes[&p].target.clone().unwrap_or_default();
                        if chain.contains(&tgt) {
                            return Err(()); // link loop
                        }
                        if self.k(&p) == K::LinkD && self.k(&tgt) == K::Missing {
                            return Err(()); // following a link whose directory target is gone
                        }
                        let now_dir = matches!(self.k(&tgt), K::Dir | K::LinkD);
                        if self.k(&tgt) != K::Missing && now_dir != (self.k(&p) == K::LinkD) {
                            // the target changed kind since the link was made: what the link
                            // "is" now is unspecified
                            return Err(());
                        }
                        if matches!(self.k(&tgt), K::LinkF | K::LinkD) {
                            // a link to a link: the second link is the target, it is not resolved further
                            if seen.insert(tgt.clone()) {
                                out.push(tgt);
                            }
                            continue;
                        }
                        let mut ch = chain.clone();
                        ch.push(tgt.clone());
                        stack.push((tgt, ch, depth));
                    }
                },
            }
        }
        Ok(out)
    }

    fn chmod(&self, praw: &str, spec: &ChmodSpec) -> Vec<Alt> {
        let p = match self.abs(praw) {
            Ok(x) => x,
            Err(e) => return same(err(&e)),
        };
        if self.k(&p) == K::Missing {
            return same(err("Path::DoesNotExist"));
        }
        let sel = match self.select(&p, spec.recursive, spec.follow) {
            Ok(s) => s,
            Err(_) => return vec![alt(Expect::ErrAny, Next::Resync(vec!["/".into()])), alt(Expect::OkAny, Next::Resync(vec!["/".into()]))],
        };
        // a symbolic expression that may be used (no octal given for at least one kind) must be
        // well formed: malformed first clause => error and nothing changes (as stated); a later
        // malformed clause => unspecified
        if !spec.sym.is_empty() && (spec.dirs == 0 || spec.files == 0) && sym_mode(0, true, &spec.sym).is_err() {
            let first = spec.sym.split(',').next().unwrap_or("");
            if sym_mode(0, true, first).is_err() {
                return same(Expect::ErrAny);
            }
            return vec![alt(Expect::ErrAny, Next::Resync(vec!["/".into()])), alt(Expect::OkAny, Next::Resync(vec!["/".into()]))];
        }
        let mut t = self.t.clone();
        let mut malformed = false;
        for e in &sel {
            let n = t.nodes.get_mut(e).unwrap();
            if n.kind == Kind::Link {
                continue; // a symlink itself is never altered
            }
            let is_dir = n.kind == Kind::Dir;
            let oct = if is_dir { spec.dirs } else { spec.files };
            let newm = if oct != 0 {
                oct
            } else if !spec.sym.is_empty() {
                match sym_mode(n.mode, is_dir, &spec.sym) {
                    Ok(m) => m,
                    Err(_) => {
                        malformed = true;
                        break;
                    },
                }
            } else {
                continue;
            };
            let tb = n.mode & 0o170000;
            n.mode = (newm & 0o7777) | tb;
        }
        if spec.dirs == 0 && spec.files == 0 && !spec.sym.is_empty() && sym_mode(0, true, &spec.sym).is_err() {
            malformed = true;
        }
        if malformed {
            // the statement fixes the behaviour only for a malformed *first* clause
            let first = spec.sym.split(',').next().unwrap_or("");
            if sym_mode(0, true, first).is_err() {
                return same(Expect::ErrAny);
            }
            return vec![alt(Expect::ErrAny, Next::Resync(vec!["/".into()])), alt(Expect::OkAny, Next::Resync(vec!["/".into()]))];
        }
        vec![alt(ok(Val::Unit), st(t))]
    }

    fn chown(&self, praw: &str, calls: &[ChownCall]) -> Vec<Alt> {
        let p = match self.abs(praw) {
            Ok(x) => x,
            Err(e) => return same(err(&e)),
        };
        if self.k(&p) == K::Missing {
            return same(err("Path::DoesNotExist"));
        }
        let (mut uid, mut gid, mut follow, mut rec) = (None, None, false, true);
        for c in calls {
            match c {
                ChownCall::Uid(u) => uid = Some(*u),
                ChownCall::Gid(g) => gid = Some(*g),
                ChownCall::Owner(u, g) => {
                    uid = Some(*u);
                    gid = Some(*g);
                },
                ChownCall::Follow => follow = true,
                ChownCall::Recurse(y) => rec = *y,
            }
        }
        let sel = match self.select(&p, rec, follow) {
            Ok(s) => s,
            Err(_) => return vec![alt(Expect::ErrAny, Next::Resync(vec!["/".into()])), alt(Expect::OkAny, Next::Resync(vec!["/".into()]))],
        };
        let mut t = self.t.clone();
        for e in &sel {
            let n = t.nodes.get_mut(e).unwrap();
            if let Some(u) = uid {
                n.uid = u;
            }
            if let Some(g) = gid {
                n.gid = g;
            }
        }
        vec![alt(ok(Val::Unit), st(t))]
    }

    fn copy(&self, sraw: &str, draw: &str, calls: &[CopyCall]) -> Vec<Alt> {
        let s = match self.abs(sraw) {
            Ok(x) => x,
            Err(e) => return same(err(&e)),
        };
        let d = match self.abs(draw) {
            Ok(x) => x,
            Err(e) => return same(err(&e)),
        };
        let (mut mode, mut cdirs, mut cfiles, mut follow) = (None, false, false, false);
        for c in calls {
            match c {
                CopyCall::ChmodAll(m) => {
                    mode = Some(*m);
                    cdirs = false;
                    cfiles = false;
                },
                CopyCall::ChmodDirs(m) => {
                    mode = Some(*m);
                    cdirs = true;
                    cfiles = false;
                },
                CopyCall::ChmodFiles(m) => {
                    mode = Some(*m);
                    cdirs = false;
                    cfiles = true;
                },
                CopyCall::Follow(y) => follow = *y,
            }
        }
        let dir_mode = if cdirs || !cfiles { mode } else { None };
        let file_mode = if cfiles || !cdirs { mode } else { None };
        if s == d {
            if self.k(&s) == K::Missing {
                return vec![alt(ok(Val::Unit), Next::Same), alt(Expect::ErrAny, Next::Same)];
            }
            return same(ok(Val::Unit));
        }
        if self.k(&s) == K::Missing {
            return same(err("Path::DoesNotExist"));
        }
        let lenient = |roots: Vec<String>| vec![alt(Expect::ErrAny, Next::Resync(roots.clone())), alt(Expect::OkAny, Next::Resync(roots))];
        if s == "/" {
            return lenient(vec!["/".into()]);
        }
        if follow {
            // documented only as "follow links"; what name a followed link is copied under is
            // not stated. Tolerated here: any result confined to the destination argument
            let mut top = d.clone();
            let mut cur = parent(&d);
            while let Some(c) = cur {
                if self.k(&c) != K::Missing {
                    break;
                }
                top = c.clone();
                cur = parent(&c);
            }
            // an existing link at or below the destination is written through, and a followed link
            // inside the source is copied under its target's path: with any link in play the
            // result may land anywhere
            if self.t.nodes.values().any(|n| n.kind == Kind::Link) {
                return lenient(vec!["/".into()]);
            }
            return lenient(vec![top]);
        }
        let copy_into = self.k(&d) == K::Dir;
        let t_root = if copy_into { join(&d, base(&s)) } else { d.clone() };
        if t_root == s {
            // copying an entry onto itself
            return vec![alt(ok(Val::Unit), Next::Same), alt(Expect::ErrAny, Next::Same)];
        }
        if is_under(&t_root, &s) || is_under(&s, &t_root) || self.through_link(&t_root) || self.through_link(&s) {
            return lenient(vec!["/".into()]);
        }
        // everything a copy may create or change lies under the top-most missing ancestor of the
        // destination (or under the destination itself when its parent exists)
        let change_root = {
            let mut top = t_root.clone();
            let mut cur = parent(&t_root);
            while let Some(c) = cur {
                if self.k(&c) != K::Missing {
                    break;
                }
                top = c.clone();
                cur = parent(&c);
            }
            top
        };
        if follow {
            // documented only as "follow links"; judged by the C09 oracle, here any result
            // confined to the destination is tolerated
            return lenient(vec![change_root, d.clone()]);
        }
        // destination parents
        let mut t = self.t.clone();
        let mut free_mode = vec![];
        {
            let mut anc = vec![];
            let mut cur = parent(&t_root);
            while let Some(c) = cur {
                match self.k(&c) {
                    K::Dir => break,
                    K::Missing => anc.push(c.clone()),
                    _ => return same(Expect::ErrAny),
                }
                cur = parent(&c);
            }
            for a in anc {
                t.nodes.insert(a.clone(), Node::dir(0o40755));
                free_mode.push(a);
            }
        }
        // a file or directory copied onto an existing link is written through the link (or
        // refused); where it lands is outside the documented domain. Decided before anything
        // else: a conflict elsewhere in the tree does not make the order of events knowable.
        for k in self.t.subtree(&s) {
            let e = &self.t.nodes[&k];
            let dst = format!("{}{}", t_root, &k[s.len()..]);
            if self.k(&dst) != K::Missing && self.t.nodes[&dst].kind == Kind::Link && e.kind != Kind::Link {
                return lenient(vec!["/".into()]);
            }
        }
        let mut conflict = false;
        let mut soft_conflict = false;
        // the kind a copied link records depends on whether its target already exists at that
        // moment of the copy, which depends on the enumeration order
        let mut free_kind: Vec<String> = vec![];
        for k in self.t.subtree(&s) {
            let e = &self.t.nodes[&k];
            let dst = format!("{}{}", t_root, &k[s.len()..]);
            let dk = if t.nodes.contains_key(&dst) { Some(t.nodes[&dst].kind) } else { None };
            if dk == Some(Kind::Link) && e.kind != Kind::Link {
                // a file or directory copied onto an existing link: written through the link or
                // refused; where it lands is outside the documented domain
                return lenient(vec!["/".into()]);
            }
            match e.kind {
                Kind::Dir => match dk {
                    None => {
                        let mut n = Node::dir(match dir_mode {
                            Some(m) if m != 0 => (m & 0o7777) | 0o40000,
                            _ => e.mode,
                        });
                        n.uid = 1000;
                        n.gid = 1000;
                        t.nodes.insert(dst, n);
                    },
                    Some(Kind::Dir) => {},
                    _ => conflict = true,
                },
                Kind::File => match dk {
                    None => {
                        let mut n = e.clone();
                        if let Some(m) = file_mode {
                            if m != 0 {
                                n.mode = (m & 0o7777) | 0o100000;
                            }
                        }
                        t.nodes.insert(dst, n);
                    },
                    Some(Kind::File) => {
                        // overwritten like fs::copy: bytes and permission bits of the source
                        let n = t.nodes.get_mut(&dst).unwrap();
                        n.data = e.data.clone();
                        n.mode = match file_mode {
                            Some(m) if m != 0 => (m & 0o7777) | 0o100000,
                            _ => e.mode,
                        };
                    },
                    _ => conflict = true,
                },
                Kind::Link => match dk {
                    None => {
                        let tgt = e.target.clone().unwrap_or_default();
                        let link_dir = matches!(self.k(&tgt), K::Dir | K::LinkD);
                        let rel = refpath::relative(&tgt, &parent(&dst).unwrap_or("/".into()));
                        free_kind.push(dst.clone());
                        t.nodes.insert(dst, Node::link(tgt, rel, link_dir));
                    },
                    // an existing link is kept, or the copy refuses (symlink(2) semantics)
                    Some(Kind::Link) => soft_conflict = true,
                    _ => conflict = true,
                },
            }
            if conflict {
                break;
            }
        }
        if conflict {
            return vec![alt(Expect::ErrAny, Next::Resync(vec![change_root]))];
        }
        let mut a = alt(ok(Val::Unit), st(t));
        a.free_mode = free_mode;
        a.free_kind = free_kind;
        if soft_conflict {
            return vec![a, alt(Expect::ErrAny, Next::Resync(vec![change_root]))];
        }
        vec![a]
    }

    fn move_p(&self, sraw: &str, draw: &str) -> Vec<Alt> {
        let s = match self.abs(sraw) {
            Ok(x) => x,
            Err(e) => return same(err(&e)),
        };
        let d = match self.abs(draw) {
            Ok(x) => x,
            Err(e) => return same(err(&e)),
        };
        if self.k(&s) == K::Missing {
            return same(err("Path::DoesNotExist"));
        }
        if s == "/" {
            // moving the root: nothing may change; onto itself may also be reported as a no-op
            return vec![alt(Expect::ErrAny, Next::Same), alt(ok(Val::Unit), Next::Same)];
        }
        let into = self.k(&d) == K::Dir;
        let t_root = if into { join(&d, base(&s)) } else { d.clone() };
        if t_root == s {
            return vec![alt(ok(Val::Unit), Next::Same), alt(Expect::ErrAny, Next::Same)];
        }
        if is_under(&t_root, &s) {
            return same(Expect::ErrAny);
        }
        match parent(&t_root) {
            Some(par) if self.k(&par) == K::Dir => {},
            _ => return same(Expect::ErrAny),
        }
        let moved = |me: &Model| -> Tree {
            let mut t = me.t.clone();
            for k in me.t.subtree(&t_root) {
                t.nodes.remove(&k);
            }
            for k in me.t.subtree(&s) {
                let n = t.nodes.remove(&k).unwrap();
                let dst = format!("{}{}", t_root, &k[s.len()..]);
                t.nodes.insert(dst, n);
            }
            if is_under(&me.t.cwd, &s) {
                // cwd inside the moved subtree: either stays (dangling) or follows; not constrained
            }
            t
        };
        let s_is_dir = self.k(&s) == K::Dir;
        match self.k(&t_root) {
            K::Missing => vec![alt(ok(Val::Unit), st(moved(self)))],
            K::File | K::LinkF | K::LinkD => {
                if is_under(&s, &t_root) {
                    return same(Expect::ErrAny);
                }
                if s_is_dir {
                    vec![alt(ok(Val::Unit), st(moved(self))), alt(Expect::ErrAny, Next::Same)]
                } else {
                    vec![alt(ok(Val::Unit), st(moved(self)))]
                }
            },
            K::Dir => {
                if s_is_dir && self.t.children(&t_root).is_empty() && !is_under(&s, &t_root) {
                    vec![alt(Expect::ErrAny, Next::Same), alt(ok(Val::Unit), st(moved(self)))]
                } else {
                    same(Expect::ErrAny)
                }
            },
        }
    }

    fn listing(&self, praw: &str, recursive: bool, want: Option<Kind>) -> Vec<Alt> {
        let p = match self.abs(praw) {
            Ok(x) => x,
            Err(_) => return same(Expect::ErrAny),
        };
        if self.k(&p) != K::Dir {
            if matches!(self.k(&p), K::LinkD) && !self.strict_listing_links {
                return same(Expect::Any);
            }
            return same(Expect::ErrAny);
        }
        // pre-order DFS with siblings in name order, and alternatively a global path sort
        let mut dfs = vec![];
        let mut stack: Vec<String> = self.t.children(&p).into_iter().rev().collect();
        while let Some(c) = stack.pop() {
            dfs.push(c.clone());
            if recursive && self.k(&c) == K::Dir {
                let mut ch = self.t.children(&c);
                ch.reverse();
                stack.extend(ch);
            }
        }
        let keep = |c: &String, links_as_kind: bool| -> bool {
            match want {
                None => true,
                Some(Kind::Dir) => self.k(c) == K::Dir || (links_as_kind && self.k(c) == K::LinkD),
                Some(Kind::File) => self.k(c) == K::File || (links_as_kind && self.k(c) == K::LinkF),
                Some(Kind::Link) => false,
            }
        };
        let mut vals = vec![];
        for links_as_kind in [false, true] {
            if links_as_kind && self.strict_listing_links {
                continue;
            }
            let a: Vec<String> = dfs.iter().filter(|c| keep(c, links_as_kind)).cloned().collect();
            let mut b = a.clone();
            b.sort();
            vals.push(Val::Paths(a));
            vals.push(Val::Paths(b));
        }
        same(Expect::OkOneOf(vals))
    }

    fn read_target(&self, praw: &str) -> Result<Result<Vec<u8>, Vec<Alt>>, Vec<Alt>> {
        let p = match self.abs(praw) {
            Ok(x) => x,
            Err(e) => return Err(same(err(&e))),
        };
        match self.k(&p) {
            K::Missing => Err(same(err("Path::DoesNotExist"))),
            K::Dir => Err(same(err("Path::IsNotFile"))),
            K::File => Ok(Ok(self.t.nodes[&p].data.clone().unwrap_or_default().0)),
            K::LinkF | K::LinkD => Ok(Err(same(Expect::ErrAny))),
        }
    }

    fn config_dir(&self, name: &str) -> Vec<Alt> {
        let home = self.env.get("HOME").cloned();
        let first = match self.env.get("XDG_CONFIG_HOME") {
            Some(x) => Some(x.clone()),
            None => home.map(|h| refpath::mash(&h, ".config")),
        };
        let first = match first {
            Some(f) => f,
            None => return same(ok(Val::OptPath(None))),
        };
        let mut dirs = vec![first];
        let sys: Vec<String> = match self.env.get("XDG_CONFIG_DIRS") {
            Some(x) => {
                let v: Vec<String> = x.split(':').filter(|s| !s.is_empty()).map(|s| s.to_string()).collect();
                if v.is_empty() {
                    vec!["/etc/xdg".into()]
                } else {
                    v
                }
            },
            None => vec!["/etc/xdg".into()],
        };
        dirs.extend(sys);
        for d in dirs {
            let cand = refpath::mash(&d, name);
            if let Ok(a) = self.abs(&cand) {
                if self.k(&a) != K::Missing {
                    return same(ok(Val::OptPath(Some(d))));
                }
            }
        }
        same(ok(Val::OptPath(None)))
    }

    /// C20: what each assert_vfs_* macro must do in the current state. Checking macros panic
    /// exactly when their predicate is false (message names macro and path); acting macros perform
    /// the operation and panic exactly when the postcondition does not hold.
    fn macro_eval(&self, name: &str, a: &str, b: &Option<String>, mode: Option<u32>, d: &Option<Bytes>) -> Vec<Alt> {
        let mname = format!("assert_vfs_{}!", name);
        let pass = || same(ok(Val::Unit));
        let panic_with = |path: &str| same(Expect::PanicWith(vec![mname.clone(), path.to_string()]));
        let pa = match self.abs(a) {
            Ok(p) => p,
            Err(_) => return same(Expect::PanicWith(vec![mname.clone()])),
        };
        let k = self.k(&pa);
        let is_link = matches!(k, K::LinkF | K::LinkD);
        let text = d.as_ref().map(|x| String::from_utf8_lossy(&x.0).into_owned()).unwrap_or_default();
        // effect of an underlying call as the model defines it: (Ok?, successor)
        let effect = |op: Op| -> Vec<(bool, Next)> {
            self.eval(&op)
                .into_iter()
                .map(|al| {
                    let okk = matches!(al.expect, Expect::Exact(Outcome::Ok(_)) | Expect::OkAny | Expect::OkOneOf(_));
                    (okk, al.next)
                })
                .collect()
        };
        let after = |n: &Next| -> Tree {
            match n {
                Next::State(t) => (**t).clone(),
                _ => self.t.clone(),
            }
        };
        match name {
            "exists" => if k != K::Missing { pass() } else { panic_with(&pa) },
            "no_exists" => if k == K::Missing { pass() } else { panic_with(&pa) },
            "is_dir" => if k == K::Dir { pass() } else { panic_with(&pa) },
            "no_dir" => if k != K::Dir { pass() } else { panic_with(&pa) },
            "is_file" => if k == K::File { pass() } else { panic_with(&pa) },
            "no_file" => if k != K::File { pass() } else { panic_with(&pa) },
            "is_symlink" => if is_link { pass() } else { panic_with(&pa) },
            "no_symlink" => if !is_link { pass() } else { panic_with(&pa) },
            "read_all" => {
                let good = k == K::File && self.t.nodes[&pa].data.as_ref().map(|x| String::from_utf8(x.0.clone()).ok() == Some(text.clone())).unwrap_or(false);
                if good { pass() } else { same(Expect::PanicWith(vec![mname.clone()])) }
            },
            "readlink" => {
                let want = b.clone().unwrap_or_default();
                let good = is_link && self.t.nodes[&pa].rel.as_deref() == Some(want.as_str());
                if good { pass() } else { same(Expect::PanicWith(vec![mname.clone()])) }
            },
            "readlink_abs" => {
                let want = self.abs(&b.clone().unwrap_or_default());
                match want {
                    Err(_) => same(Expect::PanicWith(vec![mname.clone()])),
                    Ok(w) => {
                        let good = is_link && self.t.nodes[&pa].target.as_deref() == Some(w.as_str());
                        if good { pass() } else { same(Expect::PanicWith(vec![mname.clone()])) }
                    },
                }
            },
            "mkdir_p" | "mkdir_m" => {
                let op = if name == "mkdir_p" { Op::MkdirP { p: pa.clone() } } else { Op::MkdirM { p: pa.clone(), mode: mode.unwrap_or(0o40755) & 0o7777 } };
                let mut alts = vec![];
                for (okk, n) in effect(op) {
                    let t = after(&n);
                    let post_dir = t.nodes.get(&pa).map(|x| x.kind == Kind::Dir).unwrap_or(false);
                    let post_mode = name == "mkdir_p" || t.nodes.get(&pa).map(|x| Some(x.mode) == mode).unwrap_or(false);
                    if okk && post_dir && post_mode {
                        alts.push(alt(ok(Val::Unit), Next::State(Box::new(t))));
                    } else {
                        alts.push(alt(Expect::PanicWith(vec![mname.clone()]), Next::State(Box::new(t))));
                    }
                }
                alts
            },
            "mkfile" => {
                if k != K::Missing {
                    return if k == K::File { pass() } else { panic_with(&pa) };
                }
                effect(Op::Mkfile { p: pa.clone() })
                    .into_iter()
                    .map(|(okk, n)| {
                        let t = after(&n);
                        let good = okk && t.nodes.get(&pa).map(|x| x.kind == Kind::File).unwrap_or(false);
                        alt(if good { ok(Val::Unit) } else { Expect::PanicWith(vec![mname.clone()]) }, Next::State(Box::new(t)))
                    })
                    .collect()
            },
            "write_all" => {
                // an acting macro performs the operation: afterwards the file holds the data
                effect(Op::WriteAll { p: pa.clone(), d: d.clone().unwrap_or_default() })
                    .into_iter()
                    .map(|(okk, n)| {
                        let t = after(&n);
                        let good = okk && t.nodes.get(&pa).map(|x| x.kind == Kind::File).unwrap_or(false);
                        alt(if good { ok(Val::Unit) } else { Expect::PanicWith(vec![mname.clone()]) }, Next::State(Box::new(t)))
                    })
                    .collect()
            },
            "copyfile" => {
                let pb = match self.abs(&b.clone().unwrap_or_default()) {
                    Ok(p) => p,
                    Err(_) => return same(Expect::PanicWith(vec![mname.clone()])),
                };
                if k != K::File {
                    return panic_with(&pa);
                }
                effect(Op::Copy { s: pa.clone(), d: pb.clone() })
                    .into_iter()
                    .map(|(okk, n)| {
                        if matches!(n, Next::Resync(_)) {
                            return alt(Expect::Any, n);
                        }
                        let t = after(&n);
                        // the copy lands at dst, or inside dst when that is a directory
                        let into = self.k(&pb) == K::Dir;
                        let land = if into { join(&pb, base(&pa)) } else { pb.clone() };
                        let src_text = self.t.nodes[&pa].data.as_ref().and_then(|x| String::from_utf8(x.0.clone()).ok());
                        let good = okk
                            && !into
                            && src_text.is_some()
                            && t.nodes.get(&land).map(|x| x.kind == Kind::File && x.data == self.t.nodes[&pa].data).unwrap_or(false);
                        if good {
                            let mut al = alt(ok(Val::Unit), Next::State(Box::new(t)));
                            // parents created on the fly: their mode is not pinned down
                            let mut cur = parent(&land);
                            while let Some(c) = cur {
                                if self.k(&c) != K::Missing {
                                    break;
                                }
                                al.free_mode.push(c.clone());
                                cur = parent(&c);
                            }
                            al
                        } else if okk && into && src_text.is_some() {
                            // the copy landed inside dst, dst itself is still a directory: "dst is
                            // a file holding the source's content" is false and nothing else was
                            // verified - passing here would be vacuous
                            alt(Expect::PanicWith(vec![mname.clone()]), Next::State(Box::new(t)))
                        } else if okk && src_text.is_none() {
                            // the macro compares through read_all: with data that is not text its
                            // verdict is not pinned down by the statement
                            alt(Expect::Any, Next::State(Box::new(t)))
                        } else {
                            alt(Expect::PanicWith(vec![mname.clone()]), Next::State(Box::new(t)))
                        }
                    })
                    .collect()
            },
            "symlink" => {
                if k != K::Missing {
                    return if is_link { pass() } else { panic_with(&pa) };
                }
                effect(Op::Symlink { l: pa.clone(), t: b.clone().unwrap_or_default() })
                    .into_iter()
                    .map(|(okk, n)| {
                        if matches!(n, Next::Resync(_)) {
                            return alt(Expect::Any, n);
                        }
                        let t = after(&n);
                        let good = okk && t.nodes.get(&pa).map(|x| x.kind == Kind::Link).unwrap_or(false);
                        alt(if good { ok(Val::Unit) } else { Expect::PanicWith(vec![mname.clone()]) }, Next::State(Box::new(t)))
                    })
                    .collect()
            },
            "remove" | "remove_all" => {
                if k == K::Missing {
                    return pass();
                }
                let op = if name == "remove" { Op::Remove { p: pa.clone() } } else { Op::RemoveAll { p: pa.clone() } };
                effect(op)
                    .into_iter()
                    .map(|(okk, n)| {
                        if matches!(n, Next::Resync(_)) {
                            return alt(Expect::Any, n);
                        }
                        let t = after(&n);
                        let good = okk && !t.nodes.contains_key(&pa);
                        alt(if good { ok(Val::Unit) } else { Expect::PanicWith(vec![mname.clone(), pa.clone()]) }, Next::State(Box::new(t)))
                    })
                    .collect()
            },
            _ => same(Expect::Any),
        }
    }

    /// Acceptable (outcome, successor) pairs of `op` in the current state
    pub fn eval(&self, op: &Op) -> Vec<Alt> {
        macro_rules! abs_or {
            ($p:expr) => {
                match self.abs($p) {
                    Ok(x) => x,
                    Err(e) => return same(err(&e)),
                }
            };
        }
        macro_rules! abs_or_false {
            ($p:expr) => {
                match self.abs($p) {
                    Ok(x) => x,
                    Err(_) => return same(ok(Val::Bool(false))),
                }
            };
        }
        match op {
            Op::Abs { p } => match self.abs(p) {
                Ok(x) => same(ok(Val::Path(x))),
                Err(e) => same(err(&e)),
            },
            Op::Cwd => same(ok(Val::Path(self.t.cwd.clone()))),
            Op::Root => same(ok(Val::Path("/".into()))),
            Op::SetCwd { p } => {
                let p = abs_or!(p);
                let mut t = self.t.clone();
                t.cwd = p.clone();
                match self.k(&p) {
                    K::Missing => same(err("Path::DoesNotExist")),
                    K::Dir => vec![alt(ok(Val::Path(p)), st(t))],
                    K::LinkD => {
                        // like chdir: lands in the directory the link points to (or is refused)
                        let mut t2 = self.t.clone();
                        t2.cwd = self.t.nodes[&p].target.clone().unwrap_or_default();
                        vec![alt(ok(Val::Path(p.clone())), st(t2)), alt(Expect::ErrAny, Next::Same)]
                    },
                    _ => vec![alt(ok(Val::Path(p)), st(t)), alt(Expect::ErrAny, Next::Same)],
                }
            },
            Op::Exists { p } => {
                let p = abs_or_false!(p);
                same(ok(Val::Bool(self.k(&p) != K::Missing)))
            },
            Op::IsDir { p } => {
                let p = abs_or_false!(p);
                same(ok(Val::Bool(self.k(&p) == K::Dir)))
            },
            Op::IsFile { p } => {
                let p = abs_or_false!(p);
                same(ok(Val::Bool(self.k(&p) == K::File)))
            },
            Op::IsSymlink { p } => {
                let p = abs_or_false!(p);
                same(ok(Val::Bool(matches!(self.k(&p), K::LinkF | K::LinkD))))
            },
            Op::IsSymlinkDir { p } => {
                let p = abs_or_false!(p);
                same(ok(Val::Bool(self.k(&p) == K::LinkD)))
            },
            Op::IsSymlinkFile { p } => {
                let p = abs_or_false!(p);
                same(ok(Val::Bool(self.k(&p) == K::LinkF)))
            },
            Op::IsExec { p } | Op::IsReadonly { p } => {
                let exec = matches!(op, Op::IsExec { .. });
                let p = abs_or_false!(p);
                let f = |m: u32| if exec { m & 0o111 != 0 } else { m & 0o222 == 0 };
                match self.k(&p) {
                    K::Missing => same(ok(Val::Bool(false))),
                    K::LinkF | K::LinkD => same(Expect::OkOneOf(vec![Val::Bool(true), Val::Bool(false)])),
                    _ => same(ok(Val::Bool(f(self.t.nodes[&p].mode)))),
                }
            },
            Op::Mode { p } | Op::Uid { p } | Op::Gid { p } | Op::Owner { p } => {
                let p = abs_or!(p);
                match self.t.nodes.get(&p) {
                    None => same(err("Path::DoesNotExist")),
                    Some(n) => same(ok(match op {
                        Op::Mode { .. } => Val::U32(n.mode),
                        Op::Uid { .. } => Val::U32(n.uid),
                        Op::Gid { .. } => Val::U32(n.gid),
                        _ => Val::Pair(n.uid, n.gid),
                    })),
                }
            },
            Op::Entry { p } => {
                let p = abs_or!(p);
                if self.k(&p) == K::Missing {
                    return same(err("Path::DoesNotExist"));
                }
                let v0 = self.view(&p);
                let v1 = Model::followed(&v0);
                same(ok(Val::EntryF(v0, v1.clone(), v1.clone(), v1)))
            },
            Op::Readlink { p } | Op::ReadlinkAbs { p } => {
                let p = abs_or!(p);
                match self.k(&p) {
                    K::Missing => same(err("Path::DoesNotExist")),
                    K::LinkF | K::LinkD => {
                        let n = &self.t.nodes[&p];
                        if matches!(op, Op::Readlink { .. }) {
                            same(ok(Val::Path(n.rel.clone().unwrap_or_default())))
                        } else {
                            same(ok(Val::Path(n.target.clone().unwrap_or_default())))
                        }
                    },
                    _ => same(Expect::ErrAny),
                }
            },
            Op::Mkfile { p } => {
                let p = abs_or!(p);
                self.mkfile(&p)
            },
            Op::MkfileM { p, mode } => {
                let p = abs_or!(p);
                let mut alts = self.mkfile(&p);
                for a in alts.iter_mut() {
                    if let Expect::Exact(Outcome::Ok(_)) = a.expect {
                        let mut t = match &a.next {
                            Next::State(t) => (**t).clone(),
                            _ => self.t.clone(),
                        };
                        if let Some(n) = t.nodes.get_mut(&p) {
                            if n.kind == Kind::File && *mode != 0 {
                                n.mode = (*mode & 0o7777) | 0o100000;
                            }
                        }
                        a.next = st(t);
                    }
                }
                alts
            },
            Op::MkdirP { p } => {
                let p = abs_or!(p);
                self.mkdir(&p, None)
            },
            Op::MkdirM { p, mode } => {
                let p = abs_or!(p);
                self.mkdir(&p, Some(*mode))
            },
            Op::WriteAll { p, d } => {
                let p = abs_or!(p);
                self.write_content(&p, false, &d.0)
            },
            Op::AppendAll { p, d } => {
                let p = abs_or!(p);
                self.write_content(&p, true, &d.0)
            },
            Op::AppendLine { p, s } => {
                if s.is_empty() {
                    return same(ok(Val::Unit));
                }
                let p = abs_or!(p);
                self.write_content(&p, true, format!("{}\n", s).as_bytes())
            },
            Op::AppendLines { p, ls } | Op::WriteLines { p, ls } => {
                let joined = ls.join("\n");
                if joined.is_empty() {
                    return same(ok(Val::Unit));
                }
                let p = abs_or!(p);
                self.write_content(&p, matches!(op, Op::AppendLines { .. }), format!("{}\n", joined).as_bytes())
            },
            Op::ReadAll { p } => match self.read_target(p) {
                Err(a) => a,
                Ok(Err(a)) => a,
                Ok(Ok(d)) => match String::from_utf8(d) {
                    Ok(s) => same(ok(Val::Str(s))),
                    Err(_) => same(Expect::ErrAny),
                },
            },
            Op::ReadLines { p } => match self.read_target(p) {
                Err(a) => a,
                Ok(Err(a)) => a,
                Ok(Ok(d)) => match lines_of(&d) {
                    Some(l) => same(ok(Val::Lines(l))),
                    None => same(Expect::ErrAny),
                },
            },
            Op::Remove { p } => {
                let p = abs_or!(p);
                self.remove(&p)
            },
            Op::RemoveAll { p } => {
                let p = abs_or!(p);
                self.remove_all(&p)
            },
            Op::Symlink { l, t } => self.symlink(l, t),
            Op::Chmod { p, mode } => self.chmod(p, &chmod_spec(&[ChmodCall::All(*mode)])),
            Op::ChmodB { p, calls } => self.chmod(p, &chmod_spec(calls)),
            Op::Chown { p, uid, gid } => self.chown(p, &[ChownCall::Owner(*uid, *gid)]),
            Op::ChownB { p, calls } => self.chown(p, calls),
            Op::Copy { s, d } => self.copy(s, d, &[]),
            Op::CopyB { s, d, calls } => self.copy(s, d, calls),
            Op::MoveP { s, d } => self.move_p(s, d),
            // when a builder resolves its paths is not documented: anything goes for the model,
            // the wrapper must still do exactly what the wrapped backend does (C13)
            Op::CopyBDeferred { .. } | Op::ChmodBDeferred { .. } | Op::ChownBDeferred { .. } => vec![alt(Expect::Any, Next::Resync(vec!["/".into()]))],
            // making a builder resolves the path and nothing else
            Op::ChmodBKeep { p, .. } | Op::ChownBKeep { p, .. } => match self.abs(p) {
                Ok(_) => same(ok(Val::Unit)),
                Err(e) => same(err(&e)),
            },
            // executing it is the call it was made for, on the state as it is now
            Op::BExec { b } => match &self.bs[*b] {
                Some(MB::Chmod { path, calls }) => self.eval(&Op::ChmodB { p: path.clone(), calls: calls.clone() }),
                Some(MB::Chown { path, calls }) => self.eval(&Op::ChownB { p: path.clone(), calls: calls.clone() }),
                None => same(Expect::Any),
            },
            Op::BDrop { .. } => same(ok(Val::Unit)),
            Op::Paths { p } => self.listing(p, false, None),
            Op::Dirs { p } => self.listing(p, false, Some(Kind::Dir)),
            Op::Files { p } => self.listing(p, false, Some(Kind::File)),
            Op::AllPaths { p } => self.listing(p, true, None),
            Op::AllDirs { p } => self.listing(p, true, Some(Kind::Dir)),
            Op::AllFiles { p } => self.listing(p, true, Some(Kind::File)),
            Op::Entries { p, .. } => {
                let p = abs_or!(p);
                if self.k(&p) == K::Missing {
                    return same(err("Path::DoesNotExist"));
                }
                same(Expect::Traversal)
            },
            Op::ConfigDir { name } => self.config_dir(name),
            Op::OpenRead { p, .. } => match self.read_target(p) {
                Err(a) => a,
                Ok(Err(a)) => a,
                Ok(Ok(_)) => same(ok(Val::Unit)),
            },
            Op::OpenWrite { p, .. } | Op::OpenAppend { p, .. } => {
                let p = abs_or!(p);
                if p == "/" {
                    return same(Expect::ErrAny);
                }
                if let Some(a) = self.parent_rule(&p) {
                    return a;
                }
                match self.k(&p) {
                    K::Missing => {
                        let mut t = self.t.clone();
                        t.nodes.insert(p.clone(), Node::file(0o100644, vec![]));
                        vec![alt(ok(Val::Unit), st(t))]
                    },
                    K::File => {
                        if matches!(op, Op::OpenAppend { .. }) {
                            same(ok(Val::Unit))
                        } else {
                            // truncation at open or at first flush
                            let mut t = self.t.clone();
                            t.nodes.get_mut(&p).unwrap().data = Some(Bytes(vec![]));
                            vec![alt(ok(Val::Unit), Next::Same), alt(ok(Val::Unit), st(t))]
                        }
                    },
                    K::Dir => same(err("Path::IsNotFile")),
                    _ => same(Expect::Any),
                }
            },
            Op::HRead { h, len } => match &self.hs[*h] {
                Some(MH::Read { data, pos }) => {
                    let start = (*pos).min(data.len() as u64) as usize;
                    let n = (*len).min(data.len() - start);
                    same(ok(Val::Bytes(Bytes(data[start..start + n].to_vec()))))
                },
                _ => same(Expect::Any),
            },
            Op::HReadToEnd { h } => match &self.hs[*h] {
                Some(MH::Read { data, pos }) => {
                    let start = (*pos).min(data.len() as u64) as usize;
                    same(ok(Val::Bytes(Bytes(data[start..].to_vec()))))
                },
                _ => same(Expect::Any),
            },
            Op::HSeek { h, w, off } => match &self.hs[*h] {
                Some(MH::Read { data, pos }) => {
                    let basev: i128 = match w {
                        Whence::Start => 0,
                        Whence::Current => *pos as i128,
                        Whence::End => data.len() as i128,
                    };
                    let np = if matches!(w, Whence::Start) { (*off as u64) as i128 } else { basev + *off as i128 };
                    if np < 0 || np > u64::MAX as i128 {
                        same(Expect::ErrAny)
                    } else {
                        same(ok(Val::U64(np as u64)))
                    }
                },
                _ => same(Expect::Any),
            },
            Op::HWrite { h, d } => match &self.hs[*h] {
                Some(MH::Write { .. }) => {
                    let _ = d;
                    // data may become visible immediately (unbuffered backend) or at flush
                    same(ok(Val::Unit))
                },
                _ => same(Expect::Any),
            },
            Op::HFlush { h } | Op::HDrop { h } | Op::HDropUnwind { h } => match &self.hs[*h] {
                Some(MH::Write { path, buf, synced, append, .. }) => {
                    let is_flush = matches!(op, Op::HFlush { .. });
                    match self.k(path) {
                        K::File => {
                            let mut t = self.t.clone();
                            let n = t.nodes.get_mut(path).unwrap();
                            if *append {
                                let mut nd = n.data.clone().unwrap_or_default().0;
                                nd.extend_from_slice(&buf[*synced..]);
                                n.data = Some(Bytes(nd));
                            } else {
                                n.data = Some(Bytes(buf.clone()));
                            }
                            vec![alt(ok(Val::Unit), st(t))]
                        },
                        _ => {
                            // file gone or replaced by something else: nothing is resurrected
                            if is_flush {
                                vec![alt(Expect::ErrAny, Next::Same), alt(ok(Val::Unit), Next::Same)]
                            } else {
                                same(ok(Val::Unit))
                            }
                        },
                    }
                },
                Some(MH::Read { .. }) => {
                    if matches!(op, Op::HFlush { .. }) {
                        same(Expect::Any)
                    } else {
                        same(ok(Val::Unit))
                    }
                },
                None => same(Expect::Any),
            },
            Op::Macro { name, a, b, mode, d } => self
                .macro_eval(name, a, b, *mode, d)
                .into_iter()
                .map(|mut al| {
                    if matches!(al.expect, Expect::Any) {
                        // undecided by the model: pass or panic, and whatever the underlying
                        // call did before the macro made up its mind
                        al.expect = Expect::AnyOrPanic;
                        al.next = Next::Resync(vec!["/".into()]);
                    }
                    al
                })
                .collect(),
            Op::Expand { .. } | Op::UserDir { .. } | Op::Getrids { .. } | Op::PathFn { .. } => same(Expect::Any),
        }
    }

    /// Update handle bookkeeping after the step was accepted (tree already updated by the caller)
    pub fn after(&mut self, op: &Op, out: &Outcome, pre: &Tree) {
        match op {
            Op::OpenRead { h, p } => {
                self.hs[*h] = None;
                if out.is_ok() {
                    if let Ok(a) = refpath::abs(p, &pre.cwd, &self.env) {
                        let mut d = pre.nodes.get(&a).and_then(|n| n.data.clone()).unwrap_or_default().0;
                        if let Some(n) = pre.nodes.get(&a) {
                            if n.kind == Kind::Link {
                                let tg = n.target.clone().unwrap_or_default();
                                d = pre.nodes.get(&tg).and_then(|n| n.data.clone()).unwrap_or_default().0;
                            }
                        }
                        self.hs[*h] = Some(MH::Read { data: d, pos: 0 });
                    }
                }
            },
            Op::OpenWrite { h, p } | Op::OpenAppend { h, p } => {
                self.hs[*h] = None;
                if out.is_ok() {
                    if let Ok(a) = refpath::abs(p, &pre.cwd, &self.env) {
                        self.hs[*h] =
                            Some(MH::Write { path: a, buf: vec![], synced: 0, append: matches!(op, Op::OpenAppend { .. }), flushed: false });
                    }
                }
            },
            Op::HRead { h, .. } | Op::HReadToEnd { h } => {
                if let (Some(MH::Read { pos, .. }), Outcome::Ok(Val::Bytes(b))) = (self.hs[*h].as_mut(), out) {
                    *pos += b.0.len() as u64;
                }
            },
            Op::HSeek { h, .. } => {
                if let (Some(MH::Read { pos, .. }), Outcome::Ok(Val::U64(p))) = (self.hs[*h].as_mut(), out) {
                    *pos = *p;
                }
            },
            Op::HWrite { h, d } => {
                if let (Some(MH::Write { buf, .. }), true) = (self.hs[*h].as_mut(), out.is_ok()) {
                    buf.extend_from_slice(&d.0);
                }
            },
            Op::HFlush { h } => {
                if let Some(MH::Write { path, buf, synced, flushed, .. }) = self.hs[*h].as_mut() {
                    // data counts as written only when there was a file to take it
                    let was_file = pre.nodes.get(path.as_str()).map(|n| n.kind == Kind::File).unwrap_or(false);
                    if out.is_ok() && was_file {
                        *synced = buf.len();
                        *flushed = true;
                    }
                }
            },
            Op::HDrop { h } | Op::HDropUnwind { h } => {
                self.hs[*h] = None;
            },
            Op::ChmodBKeep { b, p, calls } => {
                if out.is_ok() {
                    if let Ok(a) = refpath::abs(p, &pre.cwd, &self.env) {
                        self.bs[*b] = Some(MB::Chmod { path: a, calls: calls.clone() });
                    }
                }
            },
            Op::ChownBKeep { b, p, calls } => {
                if out.is_ok() {
                    if let Ok(a) = refpath::abs(p, &pre.cwd, &self.env) {
                        self.bs[*b] = Some(MB::Chown { path: a, calls: calls.clone() });
                    }
                }
            },
            Op::BDrop { b } => {
                if out.is_ok() {
                    self.bs[*b] = None;
                }
            },
            _ => {},
        }
    }

    /// Paths with a live write/append handle (the generator avoids conflicting writers on them)
    pub fn busy_paths(&self) -> Vec<String> {
        self.hs
            .iter()
            .filter_map(|h| match h {
                Some(MH::Write { path, .. }) => Some(path.clone()),
                _ => None,
            })
            .collect()
    }
}

pub fn matches_expect(e: &Expect, out: &Outcome) -> bool {
    match e {
        Expect::Exact(o) => o == out,
        Expect::OkOneOf(vs) => match out {
            Outcome::Ok(v) => vs.contains(v),
            _ => false,
        },
        Expect::OkAny => out.is_ok(),
        Expect::ErrAny => out.is_err(),
        Expect::Traversal => matches!(out, Outcome::Ok(Val::Entries(..))),
        Expect::PanicWith(parts) => match out {
            // (the macros print the path in Debug form: a tab in a name shows as \t there)
            Outcome::Panic(m) => parts.iter().all(|p| {
                let dbg = format!("{:?}", p);
                m.contains(p) || m.contains(dbg.trim_matches('"'))
            }),
            _ => false,
        },
        Expect::Any => !matches!(out, Outcome::Panic(_)),
        Expect::AnyOrPanic => true,
    }
}

pub fn expect_text(e: &Expect) -> String {
    match e {
        Expect::Exact(o) => match o {
            Outcome::Ok(_) => "Ok(value)".to_string(),
            x => x.class(),
        },
        Expect::OkOneOf(_) => "Ok(one-of)".into(),
        Expect::OkAny => "Ok".into(),
        Expect::ErrAny => "Err".into(),
        Expect::Traversal => "Ok(traversal)".into(),
        Expect::PanicWith(_) => "Panic".into(),
        Expect::Any => "Any".into(),
        Expect::AnyOrPanic => "Any".into(),
    }
}

pub use tree::Cmp;
