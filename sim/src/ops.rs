//! The operation alphabet of the simulator: every VirtualFileSystem method, the builders with their
//! option calls, handle life-cycle operations, the assert macros and the environment lookups.
//! Operations are explicit and serialisable: a recorded case never refers to the generator.
use serde::{Deserialize, Serialize};

/// Byte string serialised as hex
#[derive(Clone, PartialEq, Eq, PartialOrd, Ord, Default)]
pub struct Bytes(pub Vec<u8>);

impl std::fmt::Debug for Bytes {
    fn fmt(&self, f: &mut std::fmt::Formatter) -> std::fmt::Result {
        if self.0.len() <= 48 {
            write!(f, "b{:?}", String::from_utf8_lossy(&self.0))
        } else {
            write!(f, "b[{} bytes {:?}..]", self.0.len(), String::from_utf8_lossy(&self.0[..24]))
        }
    }
}

pub fn to_hex(b: &[u8]) -> String {
    let mut s = String::with_capacity(b.len() * 2);
    for x in b {
        s.push_str(&format!("{:02x}", x));
    }
    s
}

pub fn from_hex(s: &str) -> Option<Vec<u8>> {
    if s.len() % 2 != 0 {
        return None;
    }
    let mut out = Vec::with_capacity(s.len() / 2);
    let b = s.as_bytes();
    for i in (0..b.len()).step_by(2) {
        let h = (b[i] as char).to_digit(16)?;
        let l = (b[i + 1] as char).to_digit(16)?;
        out.push((h * 16 + l) as u8);
    }
    Some(out)
}

impl Serialize for Bytes {
    fn serialize<S: serde::Serializer>(&self, s: S) -> Result<S::Ok, S::Error> {
        // printable ASCII is written as "t:<text>", everything else as "x:<hex>"
        if self.0.iter().all(|c| (0x20..0x7f).contains(c)) {
            s.serialize_str(&format!("t:{}", String::from_utf8_lossy(&self.0)))
        } else {
            s.serialize_str(&format!("x:{}", to_hex(&self.0)))
        }
    }
}

impl<'de> Deserialize<'de> for Bytes {
    fn deserialize<D: serde::Deserializer<'de>>(d: D) -> Result<Self, D::Error> {
        let s = String::deserialize(d)?;
        if let Some(t) = s.strip_prefix("t:") {
            Ok(Bytes(t.as_bytes().to_vec()))
        } else if let Some(x) = s.strip_prefix("x:") {
            from_hex(x).map(Bytes).ok_or_else(|| serde::de::Error::custom("bad hex"))
        } else {
            Err(serde::de::Error::custom("bad bytes prefix"))
        }
    }
}

#[derive(Clone, Debug, PartialEq, Eq, Serialize, Deserialize)]
pub enum Filter {
    /// keep entries whose file name hashes to r modulo m
    NameMod { m: u64, r: u64 },
    IsLink,
    NotLink,
}

#[derive(Clone, Debug, PartialEq, Eq, Serialize, Deserialize, Default)]
pub struct EntOpts {
    pub min: Option<usize>,
    pub max: Option<usize>,
    /// apply min_depth before max_depth (the builder clamps one against the other)
    pub min_first: bool,
    pub dirs: bool,
    pub files: bool,
    pub follow: bool,
    pub sort_by_name: bool,
    pub dirs_first: bool,
    pub files_first: bool,
    pub contents_first: bool,
    pub filter: Option<Filter>,
}

#[derive(Clone, Debug, PartialEq, Eq, Serialize, Deserialize)]
pub enum ChmodCall {
    All(u32),
    Dirs(u32),
    Files(u32),
    Sym(String),
    Follow,
    Recurse,
    NoRecurse,
    Readonly,
    Secure,
}

#[derive(Clone, Debug, PartialEq, Eq, Serialize, Deserialize)]
pub enum ChownCall {
    Uid(u32),
    Gid(u32),
    Owner(u32, u32),
    Follow,
    Recurse(bool),
}

#[derive(Clone, Debug, PartialEq, Eq, Serialize, Deserialize)]
pub enum CopyCall {
    ChmodAll(u32),
    ChmodDirs(u32),
    ChmodFiles(u32),
    Follow(bool),
}

#[derive(Clone, Copy, Debug, PartialEq, Eq, Serialize, Deserialize)]
pub enum Whence {
    Start,
    Current,
    End,
}

#[derive(Clone, Debug, PartialEq, Eq, Serialize, Deserialize)]
pub enum Op {
    Abs { p: String },
    AllDirs { p: String },
    AllFiles { p: String },
    AllPaths { p: String },
    Paths { p: String },
    Dirs { p: String },
    Files { p: String },
    AppendAll { p: String, d: Bytes },
    AppendLine { p: String, s: String },
    AppendLines { p: String, ls: Vec<String> },
    Chmod { p: String, mode: u32 },
    ChmodB { p: String, calls: Vec<ChmodCall> },
    Chown { p: String, uid: u32, gid: u32 },
    ChownB { p: String, calls: Vec<ChownCall> },
    ConfigDir { name: String },
    Copy { s: String, d: String },
    CopyB { s: String, d: String, calls: Vec<CopyCall> },
    /// builder created, then the cwd changes, then exec(): when does a builder resolve its paths?
    CopyBDeferred { s: String, d: String, calls: Vec<CopyCall>, cwd: String },
    /// builder created, working directory changed, then executed: the path was given before
    /// a builder kept across steps (like a handle): configured once, executed any number of times
    ChmodBKeep { b: usize, p: String, calls: Vec<ChmodCall> },
    ChownBKeep { b: usize, p: String, calls: Vec<ChownCall> },
    BExec { b: usize },
    BDrop { b: usize },
    ChmodBDeferred { p: String, calls: Vec<ChmodCall>, cwd: String },
    ChownBDeferred { p: String, calls: Vec<ChownCall>, cwd: String },
    Cwd,
    Root,
    SetCwd { p: String },
    Entries { p: String, o: EntOpts },
    Entry { p: String },
    Exists { p: String },
    IsDir { p: String },
    IsFile { p: String },
    IsExec { p: String },
    IsReadonly { p: String },
    IsSymlink { p: String },
    IsSymlinkDir { p: String },
    IsSymlinkFile { p: String },
    Gid { p: String },
    Uid { p: String },
    Owner { p: String },
    Mode { p: String },
    MkdirM { p: String, mode: u32 },
    MkdirP { p: String },
    Mkfile { p: String },
    MkfileM { p: String, mode: u32 },
    MoveP { s: String, d: String },
    ReadAll { p: String },
    ReadLines { p: String },
    Readlink { p: String },
    ReadlinkAbs { p: String },
    Remove { p: String },
    RemoveAll { p: String },
    Symlink { l: String, t: String },
    WriteAll { p: String, d: Bytes },
    WriteLines { p: String, ls: Vec<String> },
    // handle life-cycle (slots are explicit so that dropping steps from a case never renumbers)
    OpenRead { h: usize, p: String },
    OpenWrite { h: usize, p: String },
    OpenAppend { h: usize, p: String },
    HRead { h: usize, len: usize },
    HReadToEnd { h: usize },
    HSeek { h: usize, w: Whence, off: i64 },
    HWrite { h: usize, d: Bytes },
    HFlush { h: usize },
    HDrop { h: usize },
    HDropUnwind { h: usize },
    // assert macros
    Macro { name: String, a: String, b: Option<String>, mode: Option<u32>, d: Option<Bytes> },
    // environment seam
    Expand { p: String },
    UserDir { which: String },
    Getrids { uid: u32, gid: u32 },
    /// a public path / string helper called directly with hostile text (C12 auxiliary: no panic)
    PathFn { f: String, a: String, b: String },
}

impl Op {
    pub fn name(&self) -> &'static str {
        match self {
            Op::Abs { .. } => "abs",
            Op::AllDirs { .. } => "all_dirs",
            Op::AllFiles { .. } => "all_files",
            Op::AllPaths { .. } => "all_paths",
            Op::Paths { .. } => "paths",
            Op::Dirs { .. } => "dirs",
            Op::Files { .. } => "files",
            Op::AppendAll { .. } => "append_all",
            Op::AppendLine { .. } => "append_line",
            Op::AppendLines { .. } => "append_lines",
            Op::Chmod { .. } => "chmod",
            Op::ChmodB { .. } => "chmod_b",
            Op::Chown { .. } => "chown",
            Op::ChownB { .. } => "chown_b",
            Op::ConfigDir { .. } => "config_dir",
            Op::Copy { .. } => "copy",
            Op::CopyB { .. } => "copy_b",
            Op::CopyBDeferred { .. } => "copy_b_deferred",
            Op::ChmodBKeep { .. } => "chmod_b_keep",
            Op::ChownBKeep { .. } => "chown_b_keep",
            Op::BExec { .. } => "b_exec",
            Op::BDrop { .. } => "b_drop",
            Op::ChmodBDeferred { .. } => "chmod_b_deferred",
            Op::ChownBDeferred { .. } => "chown_b_deferred",
            Op::Cwd => "cwd",
            Op::Root => "root",
            Op::SetCwd { .. } => "set_cwd",
            Op::Entries { .. } => "entries",
            Op::Entry { .. } => "entry",
            Op::Exists { .. } => "exists",
            Op::IsDir { .. } => "is_dir",
            Op::IsFile { .. } => "is_file",
            Op::IsExec { .. } => "is_exec",
            Op::IsReadonly { .. } => "is_readonly",
            Op::IsSymlink { .. } => "is_symlink",
            Op::IsSymlinkDir { .. } => "is_symlink_dir",
            Op::IsSymlinkFile { .. } => "is_symlink_file",
            Op::Gid { .. } => "gid",
            Op::Uid { .. } => "uid",
            Op::Owner { .. } => "owner",
            Op::Mode { .. } => "mode",
            Op::MkdirM { .. } => "mkdir_m",
            Op::MkdirP { .. } => "mkdir_p",
            Op::Mkfile { .. } => "mkfile",
            Op::MkfileM { .. } => "mkfile_m",
            Op::MoveP { .. } => "move_p",
            Op::ReadAll { .. } => "read_all",
            Op::ReadLines { .. } => "read_lines",
            Op::Readlink { .. } => "readlink",
            Op::ReadlinkAbs { .. } => "readlink_abs",
            Op::Remove { .. } => "remove",
            Op::RemoveAll { .. } => "remove_all",
            Op::Symlink { .. } => "symlink",
            Op::WriteAll { .. } => "write_all",
            Op::WriteLines { .. } => "write_lines",
            Op::OpenRead { .. } => "read",
            Op::OpenWrite { .. } => "write",
            Op::OpenAppend { .. } => "append",
            Op::HRead { .. } => "h_read",
            Op::HReadToEnd { .. } => "h_read_to_end",
            Op::HSeek { .. } => "h_seek",
            Op::HWrite { .. } => "h_write",
            Op::HFlush { .. } => "h_flush",
            Op::HDrop { .. } => "h_drop",
            Op::HDropUnwind { .. } => "h_drop_unwind",
            Op::Macro { .. } => "macro",
            Op::Expand { .. } => "expand",
            Op::UserDir { .. } => "user_dir",
            Op::Getrids { .. } => "getrids",
            Op::PathFn { .. } => "path_fn",
        }
    }

    /// Path arguments of the operation (mutable, for the spelling layer and the minimiser)
    pub fn paths_mut(&mut self) -> Vec<&mut String> {
        match self {
            Op::Abs { p }
            | Op::AllDirs { p }
            | Op::AllFiles { p }
            | Op::AllPaths { p }
            | Op::Paths { p }
            | Op::Dirs { p }
            | Op::Files { p }
            | Op::AppendAll { p, .. }
            | Op::AppendLine { p, .. }
            | Op::AppendLines { p, .. }
            | Op::Chmod { p, .. }
            | Op::ChmodB { p, .. }
            | Op::Chown { p, .. }
            | Op::ChownB { p, .. }
            | Op::SetCwd { p }
            | Op::Entries { p, .. }
            | Op::Entry { p }
            | Op::Exists { p }
            | Op::IsDir { p }
            | Op::IsFile { p }
            | Op::IsExec { p }
            | Op::IsReadonly { p }
            | Op::IsSymlink { p }
            | Op::IsSymlinkDir { p }
            | Op::IsSymlinkFile { p }
            | Op::Gid { p }
            | Op::Uid { p }
            | Op::Owner { p }
            | Op::Mode { p }
            | Op::MkdirM { p, .. }
            | Op::MkdirP { p }
            | Op::Mkfile { p }
            | Op::MkfileM { p, .. }
            | Op::ReadAll { p }
            | Op::ReadLines { p }
            | Op::Readlink { p }
            | Op::ReadlinkAbs { p }
            | Op::Remove { p }
            | Op::RemoveAll { p }
            | Op::WriteAll { p, .. }
            | Op::WriteLines { p, .. }
            | Op::OpenRead { p, .. }
            | Op::OpenWrite { p, .. }
            | Op::OpenAppend { p, .. }
            | Op::Expand { p } => vec![p],
            Op::Copy { s, d } | Op::CopyB { s, d, .. } | Op::MoveP { s, d } => vec![s, d],
            Op::CopyBDeferred { s, d, cwd, .. } => vec![s, d, cwd],
            Op::ChmodBDeferred { p, cwd, .. } | Op::ChownBDeferred { p, cwd, .. } => vec![p, cwd],
            Op::ChmodBKeep { p, .. } | Op::ChownBKeep { p, .. } => vec![p],
            Op::Symlink { l, t } => vec![l, t],
            Op::Macro { a, b, .. } => {
                let mut v = vec![a];
                if let Some(b) = b {
                    v.push(b);
                }
                v
            },
            _ => vec![],
        }
    }

    pub fn paths(&self) -> Vec<String> {
        let mut c = self.clone();
        c.paths_mut().into_iter().map(|x| x.clone()).collect()
    }

    /// Stable short label incl. option flags, used in signatures
    pub fn label(&self) -> String {
        match self {
            Op::ChmodB { calls, .. } => {
                let mut s = String::from("chmod_b");
                for c in calls {
                    s.push('.');
                    s.push_str(match c {
                        ChmodCall::All(_) => "all",
                        ChmodCall::Dirs(_) => "dirs",
                        ChmodCall::Files(_) => "files",
                        ChmodCall::Sym(_) => "sym",
                        ChmodCall::Follow => "follow",
                        ChmodCall::Recurse => "recurse",
                        ChmodCall::NoRecurse => "no_recurse",
                        ChmodCall::Readonly => "readonly",
                        ChmodCall::Secure => "secure",
                    });
                }
                s
            },
            Op::ChownB { calls, .. } => {
                let mut s = String::from("chown_b");
                for c in calls {
                    s.push('.');
                    s.push_str(match c {
                        ChownCall::Uid(_) => "uid",
                        ChownCall::Gid(_) => "gid",
                        ChownCall::Owner(..) => "owner",
                        ChownCall::Follow => "follow",
                        ChownCall::Recurse(true) => "recurse",
                        ChownCall::Recurse(false) => "no_recurse",
                    });
                }
                s
            },
            Op::CopyB { calls, .. } => {
                let mut s = String::from("copy_b");
                for c in calls {
                    s.push('.');
                    s.push_str(match c {
                        CopyCall::ChmodAll(_) => "chmod_all",
                        CopyCall::ChmodDirs(_) => "chmod_dirs",
                        CopyCall::ChmodFiles(_) => "chmod_files",
                        CopyCall::Follow(true) => "follow",
                        CopyCall::Follow(false) => "nofollow",
                    });
                }
                s
            },
            Op::Macro { name, .. } => format!("macro:{}", name),
            Op::UserDir { which } => format!("user:{}", which),
            Op::PathFn { f, .. } => format!("path_fn:{}", f),
            Op::Entries { o, .. } => {
                let mut s = String::from("entries");
                if o.min.is_some() {
                    s.push_str(".min");
                }
                if o.max.is_some() {
                    s.push_str(".max");
                }
                for (f, n) in [
                    (o.dirs, ".dirs"),
                    (o.files, ".files"),
                    (o.follow, ".follow"),
                    (o.sort_by_name, ".sort"),
                    (o.dirs_first, ".dirs_first"),
                    (o.files_first, ".files_first"),
                    (o.contents_first, ".contents_first"),
                    (o.filter.is_some(), ".filter_p"),
                ] {
                    if f {
                        s.push_str(n);
                    }
                }
                s
            },
            _ => self.name().to_string(),
        }
    }

    pub fn is_handle_op(&self) -> bool {
        matches!(
            self,
            Op::HRead { .. }
                | Op::HReadToEnd { .. }
                | Op::HSeek { .. }
                | Op::HWrite { .. }
                | Op::HFlush { .. }
                | Op::HDrop { .. }
                | Op::HDropUnwind { .. }
        )
    }
}

/// What an Entry accessor set looks like from outside
#[derive(Clone, Debug, PartialEq, Eq, PartialOrd, Ord, Serialize, Deserialize)]
pub struct EntryView {
    pub path: String,
    pub alt: String,
    pub rel: String,
    pub dir: bool,
    pub file: bool,
    pub link: bool,
    pub mode: u32,
    pub following: bool,
    pub exec: bool,
    pub readonly: bool,
    pub symlink_dir: bool,
    pub symlink_file: bool,
    pub file_name: Option<String>,
}

#[derive(Clone, Debug, PartialEq, Eq, Serialize, Deserialize)]
pub enum Val {
    Unit,
    Bool(bool),
    Path(String),
    Paths(Vec<String>),
    OptPath(Option<String>),
    Str(String),
    Lines(Vec<String>),
    U32(u32),
    U64(u64),
    Pair(u32, u32),
    Bytes(Bytes),
    Entry(EntryView),
    /// the entry, then after follow(true), after a following follow(false) (a no-op), and after
    /// another follow(true) (also a no-op: path and alt swap exactly once)
    EntryF(EntryView, EntryView, EntryView, EntryView),
    /// items yielded by a traversal; the bool says whether the iterator ended by itself
    Entries(Vec<Result<EntryView, String>>, bool),
}

#[derive(Clone, Debug, PartialEq, Eq, Serialize, Deserialize)]
pub enum Outcome {
    Ok(Val),
    Err(String),
    Panic(String),
    /// operation did not apply (handle slot empty) - not executed, not counted
    Skip,
}

impl Outcome {
    pub fn class(&self) -> String {
        match self {
            Outcome::Ok(_) => "Ok".into(),
            Outcome::Err(k) => format!("Err({})", k),
            Outcome::Panic(_) => "Panic".into(),
            Outcome::Skip => "Skip".into(),
        }
    }
    pub fn class3(&self) -> &'static str {
        match self {
            Outcome::Ok(_) => "Ok",
            Outcome::Err(_) => "Err",
            Outcome::Panic(_) => "Panic",
            Outcome::Skip => "Skip",
        }
    }
    pub fn is_ok(&self) -> bool {
        matches!(self, Outcome::Ok(_))
    }
    pub fn is_err(&self) -> bool {
        matches!(self, Outcome::Err(_))
    }
}
