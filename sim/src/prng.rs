//! Hand-written PRNG (SplitMix64 seeding, xoshiro256** stream). One seed decides a whole run.

#[derive(Clone, Debug)]
pub struct Rng {
    s: [u64; 4],
    pub draws: u64,
}

pub fn splitmix(x: &mut u64) -> u64 {
    *x = x.wrapping_add(0x9E3779B97F4A7C15);
    let mut z = *x;
    z = (z ^ (z >> 30)).wrapping_mul(0xBF58476D1CE4E5B9);
    z = (z ^ (z >> 27)).wrapping_mul(0x94D049BB133111EB);
    z ^ (z >> 31)
}

/// Mix several integers into one seed (order sensitive)
pub fn mix(parts: &[u64]) -> u64 {
    let mut x = 0x243F6A8885A308D3u64;
    let mut out = 0u64;
    for p in parts {
        x ^= *p;
        out = splitmix(&mut x) ^ out.rotate_left(17);
    }
    out
}

pub fn hash_str(s: &str) -> u64 {
    // FNV-1a, stable across processes (unlike std's RandomState)
    let mut h = 0xcbf29ce484222325u64;
    for b in s.as_bytes() {
        h ^= *b as u64;
        h = h.wrapping_mul(0x100000001b3);
    }
    h
}

pub fn hash_bytes(h0: u64, s: &[u8]) -> u64 {
    let mut h = h0 ^ 0xcbf29ce484222325u64;
    for b in s {
        h ^= *b as u64;
        h = h.wrapping_mul(0x100000001b3);
    }
    h
}

impl Rng {
    pub fn new(seed: u64) -> Self {
        let mut x = seed;
        let s = [splitmix(&mut x), splitmix(&mut x), splitmix(&mut x), splitmix(&mut x)];
        Rng { s, draws: 0 }
    }

    pub fn next(&mut self) -> u64 {
        self.draws += 1;
        let result = self.s[1].wrapping_mul(5).rotate_left(7).wrapping_mul(9);
        let t = self.s[1] << 17;
        self.s[2] ^= self.s[0];
        self.s[3] ^= self.s[1];
        self.s[1] ^= self.s[2];
        self.s[0] ^= self.s[3];
        self.s[2] ^= t;
        self.s[3] = self.s[3].rotate_left(45);
        result
    }

    /// Uniform in 0..n (n > 0)
    pub fn below(&mut self, n: usize) -> usize {
        debug_assert!(n > 0);
        (self.next() % n as u64) as usize
    }

    /// Uniform in lo..=hi
    pub fn range(&mut self, lo: usize, hi: usize) -> usize {
        lo + self.below(hi - lo + 1)
    }

    /// True with probability num/den
    pub fn chance(&mut self, num: usize, den: usize) -> bool {
        self.below(den) < num
    }

    pub fn pick<'a, T>(&mut self, xs: &'a [T]) -> &'a T {
        &xs[self.below(xs.len())]
    }

    pub fn shuffle<T>(&mut self, xs: &mut [T]) {
        for i in (1..xs.len()).rev() {
            let j = self.below(i + 1);
            xs.swap(i, j);
        }
    }

    /// Pick an index with the given weights
    pub fn weighted(&mut self, w: &[u32]) -> usize {
        let total: u64 = w.iter().map(|x| *x as u64).sum();
        debug_assert!(total > 0);
        let mut r = self.next() % total;
        for (i, x) in w.iter().enumerate() {
            if r < *x as u64 {
                return i;
            }
            r -= *x as u64;
        }
        w.len() - 1
    }
}
