//! Reference path semantics written from the documentation, on plain strings, independent of rivia:
//! expansion over an explicit environment table, protocol trimming, a port of Go's path.Clean,
//! lexical cwd join, relative navigation.
use std::collections::BTreeMap;

pub type Env = BTreeMap<String, String>;

/// Error kinds use the same vocabulary as exec::err_kind
pub type PResult = Result<String, String>;

/// Go's path.Clean on a unix path string
pub fn clean(p: &str) -> String {
    if p.is_empty() {
        return ".".into();
    }
    let rooted = p.starts_with('/');
    let mut out: Vec<&str> = vec![];
    for c in p.split('/') {
        match c {
            "" | "." => {},
            ".." => {
                if let Some(last) = out.last() {
                    if *last != ".." {
                        out.pop();
                        continue;
                    }
                }
                if !rooted {
                    out.push("..");
                }
            },
            x => out.push(x),
        }
    }
    let body = out.join("/");
    if rooted {
        format!("/{}", body)
    } else if body.is_empty() {
        ".".into()
    } else {
        body
    }
}

/// Components of a path string the way std::path does it for unix: repeated separators and inner
/// `.` vanish, a leading `.` of a relative path stays
fn components(p: &str) -> (bool, Vec<String>) {
    let rooted = p.starts_with('/');
    let mut v = vec![];
    for (i, c) in p.split('/').enumerate() {
        if c.is_empty() {
            continue;
        }
        if c == "." && !(i == 0 && !rooted) {
            continue;
        }
        v.push(c.to_string());
    }
    (rooted, v)
}

fn from_components(rooted: bool, v: &[String]) -> String {
    let body = v.join("/");
    if rooted {
        format!("/{}", body)
    } else {
        body
    }
}

/// `dir` joined with `rest` after removing leading separators of `rest` (documented mash: the
/// result always stays under dir), normalised through components
pub fn mash(dir: &str, rest: &str) -> String {
    let rest = rest.trim_start_matches('/');
    let joined = if dir.ends_with('/') || dir.is_empty() { format!("{}{}", dir, rest) } else { format!("{}/{}", dir, rest) };
    let (r, c) = components(&joined);
    from_components(r, &c)
}

/// Documented expansion: leading `~` / `~/` -> $HOME, `$NAME` / `${NAME}` inside a component
pub fn expand(p: &str, env: &Env) -> PResult {
    let tildes = p.matches('~').count();
    let mut s: String = if tildes > 1 {
        return Err("Path::MultipleHomeSymbols".into());
    } else if tildes == 1 {
        if p == "~" {
            env.get("HOME").cloned().ok_or("Var::NotPresent".to_string())?
        } else if let Some(rest) = p.strip_prefix("~/") {
            let home = env.get("HOME").cloned().ok_or("Var::NotPresent".to_string())?;
            mash(&home, rest)
        } else {
            return Err("Path::InvalidExpansion".into());
        }
    } else {
        p.to_string()
    };

    if s.contains('$') {
        // variables are substituted textually inside each component
        let rooted = s.starts_with('/');
        let mut comps: Vec<String> = vec![];
        let (_, parts) = components(&s);
        for seg in parts {
            if !seg.contains('$') {
                comps.push(seg);
                continue;
            }
            let chars: Vec<char> = seg.chars().collect();
            let mut i = 0;
            let mut out = String::new();
            while i < chars.len() {
                if chars[i] != '$' {
                    out.push(chars[i]);
                    i += 1;
                    continue;
                }
                i += 1; // the '$'
                let mut braced = false;
                if i < chars.len() && chars[i] == '{' {
                    braced = true;
                    i += 1;
                }
                let mut name = String::new();
                while i < chars.len() && chars[i] != '$' && chars[i] != '}' {
                    name.push(chars[i]);
                    i += 1;
                }
                if i < chars.len() && chars[i] == '}' {
                    i += 1;
                }
                let _ = braced;
                if name.is_empty() {
                    return Err("Path::InvalidExpansion".into());
                }
                match env.get(&name) {
                    Some(v) => out.push_str(v),
                    None => return Err("Var::NotPresent".into()),
                }
            }
            comps.push(out);
        }
        s = from_components(rooted, &comps);
    }
    Ok(s)
}

/// Remove one leading file:// ftp:// http:// https:// (case-insensitive)
pub fn trim_protocol(p: &str) -> String {
    if let Some(i) = p.find("//") {
        let prefix = p[..i + 2].to_lowercase();
        if ["file://", "ftp://", "http://", "https://"].contains(&prefix.as_str()) {
            return p[i + 2..].to_string();
        }
    }
    p.to_string()
}

pub fn parent(p: &str) -> String {
    if p == "/" {
        return "/".into();
    }
    match p.rfind('/') {
        Some(0) => "/".into(),
        Some(i) => p[..i].to_string(),
        None => String::new(),
    }
}

/// Reference abs: expand -> trim_protocol -> clean -> lexical join onto cwd
pub fn abs(p: &str, cwd: &str, env: &Env) -> PResult {
    if p.is_empty() {
        return Err("Path::Empty".into());
    }
    let e = expand(p, env)?;
    let t = trim_protocol(&e);
    let c = clean(&t);
    if c.starts_with('/') {
        return Ok(c);
    }
    let mut cur = cwd.to_string();
    let mut rest: Vec<&str> = if c == "." { vec![] } else { c.split('/').collect() };
    while let Some(first) = rest.first() {
        if *first == ".." {
            if cur == "/" {
                return Err("Path::ParentNotFound".into());
            }
            cur = parent(&cur);
            rest.remove(0);
        } else {
            break;
        }
    }
    if rest.is_empty() {
        Ok(cur)
    } else if cur == "/" {
        Ok(format!("/{}", rest.join("/")))
    } else {
        Ok(format!("{}/{}", cur, rest.join("/")))
    }
}

/// Navigation from directory `base` to `path` (both clean absolute)
pub fn relative(path: &str, base: &str) -> String {
    if path == base {
        return path.to_string();
    }
    let a: Vec<&str> = path.split('/').filter(|x| !x.is_empty()).collect();
    let b: Vec<&str> = base.split('/').filter(|x| !x.is_empty()).collect();
    let mut i = 0;
    while i < a.len() && i < b.len() && a[i] == b[i] {
        i += 1;
    }
    let mut out: Vec<&str> = vec![];
    for _ in i..b.len() {
        out.push("..");
    }
    out.extend(&a[i..]);
    out.join("/")
}

pub fn is_clean_abs(p: &str) -> bool {
    p.starts_with('/') && clean(p) == p
}

#[cfg(test)]
mod tests {
    use super::*;
    #[test]
    fn clean_cases() {
        for (i, o) in [("", "."), ("/", "/"), ("//", "/"), ("/a/../..", "/"), ("a/..", "."), ("../a/..", ".."), ("a/./b//c/", "a/b/c"), ("../../a", "../../a"), ("/../a", "/a"), ("a/b/../../..", "..")] {
            assert_eq!(clean(i), o, "{}", i);
        }
    }
    #[test]
    fn rel_cases() {
        assert_eq!(relative("/a/b", "/a"), "b");
        assert_eq!(relative("/a", "/a/b"), "..");
        assert_eq!(relative("/x/y", "/a/b"), "../../x/y");
        assert_eq!(relative("/a", "/"), "a");
    }
}
