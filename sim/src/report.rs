//! Violations, signatures, run statistics (all measured), shared by every world.
use std::collections::{BTreeMap, BTreeSet};

use serde::{Deserialize, Serialize};

#[derive(Clone, Debug, PartialEq, Eq, Serialize, Deserialize)]
pub struct Violation {
    pub property: String,
    pub oracle: String,
    pub step: usize,
    /// structured, name-independent identity of the failure class
    pub sig: String,
    pub detail: String,
}

#[derive(Clone, Debug, Default, Serialize, Deserialize)]
pub struct Stats {
    pub runs: u64,
    pub steps: u64,
    pub skipped_steps: u64,
    pub sched_events: u64,
    pub counters: BTreeMap<String, u64>,
    /// distinct (op label | pre-state class | outcome class) triples
    pub triples: BTreeSet<String>,
    pub trivial_triples: BTreeSet<String>,
    pub shapes: BTreeSet<u64>,
    pub distinct_cases: BTreeSet<u64>,
    pub known_hits: BTreeMap<String, u64>,
    pub other_property: BTreeMap<String, u64>,
    pub runs_ended_by_known: u64,
    pub samples: Vec<serde_json::Value>,
}

impl Stats {
    pub fn bump(&mut self, k: &str) {
        *self.counters.entry(k.to_string()).or_insert(0) += 1;
    }
    pub fn add(&mut self, k: &str, n: u64) {
        *self.counters.entry(k.to_string()).or_insert(0) += n;
    }
    pub fn merge(&mut self, o: Stats) {
        self.runs += o.runs;
        self.steps += o.steps;
        self.skipped_steps += o.skipped_steps;
        self.sched_events += o.sched_events;
        for (k, v) in o.counters {
            *self.counters.entry(k).or_insert(0) += v;
        }
        self.triples.extend(o.triples);
        self.trivial_triples.extend(o.trivial_triples);
        self.shapes.extend(o.shapes);
        self.distinct_cases.extend(o.distinct_cases);
        for (k, v) in o.known_hits {
            *self.known_hits.entry(k).or_insert(0) += v;
        }
        for (k, v) in o.other_property {
            *self.other_property.entry(k).or_insert(0) += v;
        }
        self.runs_ended_by_known += o.runs_ended_by_known;
        for s in o.samples {
            if self.samples.len() < 6 {
                self.samples.push(s);
            }
        }
    }
}
