//! SEQ world: one client, real Memfs (directly and optionally through the Vfs wrapper), live
//! handles, simulator-chosen enumeration order / descriptor cap / environment. Every step is judged
//! against RefFs (acceptable-outcome sets), the C03 integrity invariant and the C12 liveness probe.
use std::collections::BTreeMap;

use rivia::prelude::*;
use serde::{Deserialize, Serialize};

use crate::{
    exec::{self, Handles},
    gen::{Gen, Profile},
    hooks::{self, Knobs},
    model::{self, Alt, Expect, Model, Next, K},
    ops::*,
    prng::{hash_bytes, Rng},
    refpath::Env,
    report::{Stats, Violation},
    traverse,
    tree::{self, is_under, Cmp, Tree},
};

/// How strictly a property's check compares (so that a check only alarms on its own property)
#[derive(Clone, Debug)]
pub struct Strict {
    /// compare error kinds (only where the documentation names them)
    pub err_kinds: bool,
    /// compare Ok values
    pub values: bool,
    pub cmp: Cmp,
    /// labels of operations whose conformance belongs to this property (None = all)
    pub ops: Option<Vec<&'static str>>,
    pub strict_listing_links: bool,
}

#[derive(Clone, Debug)]
pub struct PropCfg {
    pub id: &'static str,
    pub profile: Profile,
    pub strict: Strict,
    /// which oracles report under this property id
    pub model_oracle: bool,
    pub integrity_oracle: bool,
    pub panic_oracle: bool,
    /// additionally run every step through Vfs::Memfs and compare transcripts (C13)
    pub wrapper: bool,
    /// additionally run every step with canonical (already resolved) path arguments on a twin
    /// instance and compare outcomes and states (C05 spelling independence)
    pub canon_twin: bool,
}

/// The same operation with every path argument replaced by its reference resolution; None when
/// some argument does not resolve (then both instances get the original operation)
pub fn canonical_op(m: &Model, op: &Op) -> Option<Op> {
    let mut c = op.clone();
    if let Op::Symlink { l, t } = &mut c {
        let la = m.abs(l).ok()?;
        let lp = tree::parent(&la).unwrap_or_else(|| "/".into());
        let joined = if t.starts_with('/') { t.clone() } else { crate::refpath::mash(&lp, t) };
        let ta = m.abs(&joined).ok()?;
        *l = la;
        *t = ta;
        return Some(c);
    }
    if matches!(c, Op::Expand { .. } | Op::Macro { .. } | Op::Abs { .. }) {
        return None;
    }
    for p in c.paths_mut() {
        let a = m.abs(p).ok()?;
        *p = a;
    }
    Some(c)
}

#[derive(Clone, Debug, Serialize, Deserialize)]
pub struct ExpectSig {
    pub sig: String,
    pub step: usize,
}

#[derive(Clone, Debug, Serialize, Deserialize)]
pub struct Case {
    pub format: u32,
    pub property: String,
    pub world: String,
    pub seed: u64,
    pub run: u64,
    pub knobs: Knobs,
    pub env: Env,
    pub ops: Vec<Op>,
    pub expect: Option<ExpectSig>,
    pub log_hash: String,
    #[serde(default)]
    pub what: String,
}

pub const MANAGED_ENV: &[&str] = &[
    "HOME",
    "RV_A",
    "RV_B",
    "RV_UNSET",
    "RV_BIN",
    "XDG_CONFIG_HOME",
    "XDG_CONFIG_DIRS",
    "XDG_DATA_HOME",
    "XDG_DATA_DIRS",
    "XDG_CACHE_HOME",
    "XDG_STATE_HOME",
    "XDG_RUNTIME_DIR",
    "TMPDIR",
    "SUDO_UID",
    "SUDO_GID",
];

/// Install the run's environment table (the worker is single-threaded at this point)
pub fn set_env(env: &Env) {
    for k in MANAGED_ENV {
        std::env::remove_var(k);
    }
    if env.contains_key("PATH") {
        std::env::remove_var("PATH");
    }
    for (k, v) in env {
        if v == "<non-utf8>" {
            use std::os::unix::ffi::OsStrExt;
            std::env::set_var(k, std::ffi::OsStr::from_bytes(b"caf\xe9"));
        } else {
            std::env::set_var(k, v);
        }
    }
}

pub fn relation(a: &str, b: &str) -> &'static str {
    if a == b {
        "same"
    } else if is_under(b, a) {
        "dst-inside-src"
    } else if is_under(a, b) {
        "src-inside-dst"
    } else {
        "disjoint"
    }
}

/// Name-independent class of a path argument in the model's pre-state
pub fn arg_class(m: &Model, raw: &str) -> String {
    match m.abs(raw) {
        Err(k) => format!("abs-err:{}", k),
        Ok(a) => {
            let mut s = String::new();
            if a == "/" {
                s.push_str("root");
            } else {
                s.push_str(m.k(&a).name());
                if m.k(&a) == K::Missing {
                    let par = tree::parent(&a).unwrap_or_else(|| "/".into());
                    s.push_str(match m.k(&par) {
                        K::Missing => "/parent-missing",
                        K::File => "/parent-file",
                        K::LinkF | K::LinkD => "/parent-link",
                        K::Dir => "",
                    });
                } else if m.k(&a) == K::Dir {
                    s.push_str(if m.t.children(&a).is_empty() { "(empty)" } else { "(nonempty)" });
                } else if matches!(m.k(&a), K::LinkF | K::LinkD) {
                    let tg = m.t.nodes[&a].target.clone().unwrap_or_default();
                    s.push_str(&format!("->{}", m.k(&tg).name()));
                }
            }
            if m.through_link(&a) {
                s.push_str("+under-link");
            }
            if a == m.t.cwd && a != "/" {
                s.push_str("+cwd");
            }
            s
        },
    }
}

pub fn op_class(m: &Model, op: &Op) -> String {
    let ps = op.paths();
    let mut parts: Vec<String> = ps.iter().map(|p| arg_class(m, p)).collect();
    if ps.len() == 2 && !matches!(op, Op::Symlink { .. } | Op::Macro { .. }) {
        if let (Ok(a), Ok(b)) = (m.abs(&ps[0]), m.abs(&ps[1])) {
            // relation of the effective destination as well
            let into = m.k(&b) == K::Dir;
            let eff = if into { tree::join(&b, tree::base(&a)) } else { b.clone() };
            if matches!(op, Op::Copy { .. } | Op::CopyB { .. }) {
                // a directory of the source that meets, deeper down in an existing destination,
                // a link to a directory
                let nested = m.t.subtree(&a).iter().any(|k| {
                    k.len() > a.len() && m.k(k) == K::Dir && {
                        let dst = format!("{}{}", if eff == "/" { "" } else { &eff }, &k[a.len()..]);
                        m.k(&dst) == K::LinkD
                    }
                });
                if nested {
                    parts.push("nested:link-dir".into());
                }
            }
            parts.push(format!("rel={}", relation(&a, &b)));
            if into {
                parts.push(format!("into:{}", m.k(&eff).name()));
            }
        }
    }
    match op {
        Op::HRead { h, .. }
        | Op::HReadToEnd { h }
        | Op::HSeek { h, .. }
        | Op::HWrite { h, .. }
        | Op::HFlush { h }
        | Op::HDrop { h }
        | Op::HDropUnwind { h } => {
            parts.push(match &m.hs[*h] {
                None => "no-handle".to_string(),
                Some(model::MH::Read { data, pos }) => {
                    format!("read-handle:{}", if *pos > data.len() as u64 { "past-end" } else if *pos == data.len() as u64 { "at-end" } else { "inside" })
                },
                Some(model::MH::Write { path, append, buf, synced, .. }) => format!(
                    "{}-handle:file-{}:{}",
                    if *append { "append" } else { "write" },
                    m.k(path).name(),
                    if buf.len() > *synced { "dirty" } else { "clean" }
                ),
            });
            if let Op::HSeek { w, off, .. } = op {
                parts.push(format!("{:?}:{}", w, if *off < 0 { "neg" } else { "nonneg" }));
            }
        },
        _ => {},
    }
    parts.join(",")
}

pub enum Source<'a> {
    Gen { gen: &'a mut Gen, rng: &'a mut Rng, len: usize },
    Replay(&'a [Op]),
}

pub struct RunOut {
    pub ops: Vec<Op>,
    pub violations: Vec<Violation>,
    pub log_hash: u64,
    pub ended_early: bool,
}

fn delta_kinds(ds: &[tree::Delta]) -> String {
    let mut k: Vec<&str> = ds.iter().map(|d| d.what).collect();
    k.sort();
    k.dedup();
    k.join("+")
}

/// Judge one step against the model. Returns the accepted alternative index or a violation.
pub fn judge(
    m: &Model, op: &Op, out: &Outcome, pre: &Tree, real: &Tree, strict: &Strict,
) -> Result<(), (String, String, String)> {
    let alts = m.eval(op);
    let relevant = match &strict.ops {
        None => true,
        Some(l) => l.contains(&op.name()),
    };
    if !relevant {
        return Ok(());
    }
    // loosen expectations according to the property's strictness
    let norm = |a: &Alt| -> Expect {
        match &a.expect {
            Expect::Exact(Outcome::Err(_)) if !strict.err_kinds => Expect::ErrAny,
            Expect::Exact(Outcome::Ok(_)) if !strict.values => Expect::OkAny,
            Expect::OkOneOf(_) if !strict.values => Expect::OkAny,
            e => e.clone(),
        }
    };
    let mut outcome_matched: Option<(usize, Vec<tree::Delta>)> = None;
    for (i, a) in alts.iter().enumerate() {
        let e = norm(a);
        if !model::matches_expect(&e, out) {
            continue;
        }
        if let Expect::Traversal = e {
            if let Outcome::Ok(Val::Entries(items, ended)) = out {
                if let Op::Entries { p, o } = op {
                    if let Err(why) = traverse::check(m, p, o, items, *ended) {
                        return Err(("traversal".into(), why.0, why.1));
                    }
                }
            }
        }
        let ds = match &a.next {
            Next::Same => tree::diff(real, pre, strict.cmp),
            Next::State(t) => {
                let mut ds = tree::diff(real, t, strict.cmp);
                ds.retain(|d| {
                    !(d.what == "mode" && a.free_mode.contains(&d.path))
                        && !(d.what == "content" && a.free_data.contains(&d.path))
                        && !(d.what == "link-kind" && a.free_kind.contains(&d.path))
                });
                ds
            },
            Next::Resync(roots) => {
                // only entries under the given roots may differ from the pre-state
                let mut ds = tree::diff(real, pre, strict.cmp);
                ds.retain(|d| !roots.iter().any(|r| is_under(&d.path, r)));
                ds
            },
        };
        if ds.is_empty() {
            return Ok(());
        }
        if outcome_matched.is_none() {
            outcome_matched = Some((i, ds));
        }
    }
    let exp: Vec<String> = alts.iter().map(|a| model::expect_text(&norm(a))).collect();
    match outcome_matched {
        Some((_, ds)) => Err((
            "state".into(),
            format!("exp={} got={} delta={}", exp.join("/"), out.class3(), delta_kinds(&ds)),
            format!("{:?}", ds.iter().take(6).collect::<Vec<_>>()),
        )),
        None => Err((
            "outcome".into(),
            format!("exp={} got={}", exp.join("/"), if strict.err_kinds { out.class() } else { out.class3().to_string() }),
            format!("real outcome {:?}; acceptable {:?}", out, alts.iter().map(|a| &a.expect).collect::<Vec<_>>()),
        )),
    }
}

/// Cross-validation of the H2 hook against the public Display rendering
fn display_agrees(fs: &Memfs, snap: &rivia::verif::VerifSnapshot) -> Result<(), String> {
    let text = format!("{}", fs);
    let mut section = "";
    let mut keys = vec![];
    let mut files = vec![];
    for line in text.lines() {
        if line.starts_with("[cwd]: ") {
            if line[7..] != *snap.cwd.to_string_lossy() {
                return Err("cwd differs".into());
            }
            continue;
        }
        if line.starts_with("[root]: ") {
            continue;
        }
        if line == "[fs]:" {
            section = "fs";
            continue;
        }
        if line == "[files]:" {
            section = "files";
            continue;
        }
        if line.is_empty() {
            continue;
        }
        match section {
            "fs" => keys.push(line.split(" -> ").next().unwrap_or("").to_string()),
            "files" => files.push(line.to_string()),
            _ => {},
        }
    }
    let sk: Vec<String> = snap.entries.iter().map(|e| e.key.to_string_lossy().into_owned()).collect();
    let sf: Vec<String> = snap.files.iter().map(|e| e.key.to_string_lossy().into_owned()).collect();
    // line parsing is exact unless a name holds a newline or the arrow Display prints
    let odd = |p: &std::path::Path| {
        let t = p.to_string_lossy();
        t.contains('\n') || t.contains(" -> ")
    };
    if snap.entries.iter().any(|e| odd(&e.key) || odd(&e.alt) || odd(&e.rel)) {
        return Ok(());
    }
    if keys != sk {
        return Err(format!("entry keys differ: display {:?} hook {:?}", keys, sk));
    }
    if files != sf {
        return Err(format!("data keys differ: display {:?} hook {:?}", files, sf));
    }
    Ok(())
}

pub fn run_seq(pc: &PropCfg, knobs: &Knobs, env: &Env, mut src: Source, stats: &mut Stats, known: &dyn Fn(&Violation) -> bool) -> RunOut {
    set_env(env);
    let _ = exec::ENTRY_MISMATCH.with(|m| m.borrow_mut().take());
    let _ = exec::FOLLOW_TWICE.with(|m| m.borrow_mut().take());
    let _ = exec::MACRO_TWICE.with(|m| m.borrow_mut().take());
    let hk = hooks::install_seq(knobs);
    let fs = Memfs::new();
    let wfs: Option<Vfs> = if pc.wrapper { Some(Vfs::memfs()) } else { None };
    let cfs: Option<Memfs> = if pc.canon_twin { Some(Memfs::new()) } else { None };
    let mut hs = Handles::default();
    let mut whs = Handles::default();
    let mut chs = Handles::default();
    let mut m = Model::new(env.clone());
    m.strict_listing_links = pc.strict.strict_listing_links;
    let mut ops_done: Vec<Op> = vec![];
    let mut violations = vec![];
    let mut log = 0u64;
    let mut ended_early = false;
    let mut i = 0usize;
    let total = match &src {
        Source::Gen { len, .. } => *len,
        Source::Replay(o) => o.len(),
    };
    let mut pre_snap_tree = Tree::default();
    stats.runs += 1;
    if crate::TRACE.load(std::sync::atomic::Ordering::Relaxed) {
        use std::io::Write;
        println!("T0 {}", serde_json::json!({"knobs": knobs, "env": env}));
        let _ = std::io::stdout().flush();
    }
    let mut tail: Vec<Op> = vec![];
    let mut tail_built = false;
    loop {
        if i >= total && !tail_built {
            tail_built = true;
            if let Source::Gen { .. } = &src {
                // every handle still open is dropped as an explicit, recorded, judged step
                for (h, slot) in m.hs.iter().enumerate() {
                    if slot.is_some() {
                        tail.push(Op::HDrop { h });
                    }
                }
                tail.reverse();
            }
        }
        let op = if i < total {
            let op = match &mut src {
                Source::Gen { gen, rng, .. } => gen.next_op(&m, rng),
                Source::Replay(o) => o[i].clone(),
            };
            op
        } else {
            match tail.pop() {
                Some(op) => op,
                None => break,
            }
        };
        i += 1;
        let class = op_class(&m, &op);
        if crate::TRACE.load(std::sync::atomic::Ordering::Relaxed) {
            use std::io::Write;
            println!("T {}", serde_json::json!({"label": op.label(), "op": op}));
            let _ = std::io::stdout().flush();
        }
        let canon = if pc.canon_twin { canonical_op(&m, &op) } else { None };
        let out = exec::exec(&fs, &mut hs, &op);
        ops_done.push(op.clone());
        if out == Outcome::Skip {
            stats.skipped_steps += 1;
            if let Some(w) = &wfs {
                let _ = exec::exec(w, &mut whs, &op);
            }
            if let Some(c) = &cfs {
                let _ = exec::exec(c, &mut chs, canon.as_ref().unwrap_or(&op));
            }
            continue;
        }
        stats.steps += 1;
        let step = ops_done.len() - 1;
        let mut step_violations: Vec<Violation> = vec![];

        // C12: no panic; the instance stays usable
        if let Outcome::Panic(msg) = &out {
            stats.bump("probe.panic_outcome");
            step_violations.push(Violation {
                property: "C12".into(),
                oracle: "no-panic".into(),
                step,
                sig: format!("panic|{}|{}", op.label(), class),
                detail: format!("{:?} panicked: {}", op, msg),
            });
        }
        let snap = fs.verif_snapshot();
        if !out.is_ok() {
            stats.bump("liveness_probes");
            let alive = std::panic::catch_unwind(std::panic::AssertUnwindSafe(|| fs.exists("/") && fs.mkdir_p("/").is_ok() && fs.cwd().is_ok()));
            if alive.map(|x| !x).unwrap_or(true) || snap.poisoned {
                step_violations.push(Violation {
                    property: "C12".into(),
                    oracle: "liveness".into(),
                    step,
                    sig: format!("wedged|{}|{}", op.label(), class),
                    detail: format!("instance unusable after {:?} -> {:?} (poisoned={})", op, out.class(), snap.poisoned),
                });
            }
        }

        // C03: integrity of the complete internal state after every step, failed or not
        let breaches = tree::integrity(&snap);
        let real = tree::tree_of(&snap);
        let mut integrity_ok = breaches.is_empty();
        if !breaches.is_empty() {
            let mut kinds: Vec<&str> = breaches.iter().map(|b| b.what).collect();
            kinds.sort();
            kinds.dedup();
            step_violations.push(Violation {
                property: "C03".into(),
                oracle: "integrity".into(),
                step,
                sig: format!("integrity|{}|{}|{}|{}", op.label(), class, out.class3(), kinds.join("+")),
                detail: format!("after {:?} -> {}: {:?}", op, out.class(), breaches.iter().take(6).collect::<Vec<_>>()),
            });
        } else if real != pre_snap_tree && !matches!(out, Outcome::Panic(_)) {
            // reachability through the public API (clause 3), whenever the tree changed
            stats.bump("reachability_checks");
            let listed = std::panic::catch_unwind(std::panic::AssertUnwindSafe(|| fs.all_paths("/")));
            let mut want: Vec<String> = real.nodes.keys().filter(|k| *k != "/").cloned().collect();
            want.sort();
            match listed {
                Ok(Ok(paths)) => {
                    let mut got: Vec<String> = paths.iter().map(|p| exec::ps(p)).collect();
                    got.sort();
                    if got != want {
                        integrity_ok = false;
                        step_violations.push(Violation {
                            property: "C03".into(),
                            oracle: "reachability".into(),
                            step,
                            sig: format!("reachability|{}|{}", op.label(), class),
                            detail: format!("all_paths('/') = {:?} but entries are {:?}", got, want),
                        });
                    }
                },
                other => {
                    step_violations.push(Violation {
                        property: "C03".into(),
                        oracle: "reachability".into(),
                        step,
                        sig: format!("reachability-failed|{}|{}", op.label(), class),
                        detail: format!("all_paths('/') failed: {:?}", other.map(|r| r.map(|_| ()).map_err(|e| exec::err_kind(&e))).map_err(|_| "panic")),
                    });
                },
            }
        }

        // C01 & friends: conformance to the reference model
        let mut model_ok = true;
        // (judged on the observable tree even when the internal indexes disagree: a damaged index
        // shows up here as soon as a listing or query observes it)
        // (a panic is an outcome like any other for the assert macros: it is what they are for)
        if !snap.poisoned && (!matches!(out, Outcome::Panic(_)) || matches!(op, Op::Macro { .. })) {
            if let Err((oracle, what, detail)) = judge(&m, &op, &out, &m.t, &real, &pc.strict) {
                model_ok = false;
                step_violations.push(Violation {
                    property: pc.id.into(),
                    oracle: format!("model-{}", oracle),
                    step,
                    sig: format!("{}|{}|{}|{}", oracle, op.label(), class, what),
                    detail: format!("{:?}: {}", op, detail),
                });
            }
        }

        // C13: VfsEntry accessors against the wrapped entry value
        if let Some(d) = exec::ENTRY_MISMATCH.with(|m| m.borrow_mut().take()) {
            step_violations.push(Violation {
                property: "C13".into(),
                oracle: "entry-accessors".into(),
                step,
                sig: format!("wrapper-entry|{}", op.label()),
                detail: format!("{:?}: {}", op, d.chars().take(500).collect::<String>()),
            });
        }
        // C20: a macro evaluates its arguments once
        if let Some(d) = exec::MACRO_TWICE.with(|m| m.borrow_mut().take()) {
            step_violations.push(Violation {
                property: "C20".into(),
                oracle: "macro-argument-evaluation".into(),
                step,
                sig: format!("macro-arg-evals|{}", op.label()),
                detail: format!("{:?}: {}", op, d),
            });
        }
        // C10: follow(true) swaps path and alt exactly once, also on a copy of the entry
        if let Some(d) = exec::FOLLOW_TWICE.with(|m| m.borrow_mut().take()) {
            step_violations.push(Violation {
                property: "C10".into(),
                oracle: "follow-swaps-once".into(),
                step,
                sig: format!("follow-twice|{}", op.label()),
                detail: format!("{:?}: {}", op, d.chars().take(500).collect::<String>()),
            });
        }
        // C13: the same step through the wrapper
        if let Some(w) = &wfs {
            let wout = exec::exec(w, &mut whs, &op);
            if wout != out {
                step_violations.push(Violation {
                    property: "C13".into(),
                    oracle: "wrapper-transcript".into(),
                    step,
                    sig: format!("wrapper-outcome|{}", op.label()),
                    detail: format!("{:?}: direct {:?} vs wrapper {:?}", op, out, wout),
                });
            } else if let Vfs::Memfs(inner) = w {
                let wsnap = inner.verif_snapshot();
                if wsnap != snap {
                    step_violations.push(Violation {
                        property: "C13".into(),
                        oracle: "wrapper-state".into(),
                        step,
                        sig: format!("wrapper-state|{}", op.label()),
                        detail: format!("{:?}: states differ after the step", op),
                    });
                }
            }
            stats.bump(&format!("wrapper_compared.{}", op.name()));
        }

        // C05: the same step with canonical spellings on the twin instance
        if let Some(c) = &cfs {
            let cop = canon.as_ref().unwrap_or(&op);
            let cout = exec::exec(c, &mut chs, cop);
            if canon.is_some() && *cop != op {
                stats.bump("canonical_twin_compared");
                if cout != out {
                    step_violations.push(Violation {
                        property: "C05".into(),
                        oracle: "spelling-outcome".into(),
                        step,
                        sig: format!("spelling-outcome|{}|{}|{} vs {}", op.label(), class, out.class(), cout.class()),
                        detail: format!("{:?} -> {:?} but canonical {:?} -> {:?}", op, out, cop, cout),
                    });
                } else if c.verif_snapshot() != snap {
                    step_violations.push(Violation {
                        property: "C05".into(),
                        oracle: "spelling-state".into(),
                        step,
                        sig: format!("spelling-state|{}|{}", op.label(), class),
                        detail: format!("{:?} and canonical {:?} left different states", op, cop),
                    });
                }
            }
        }

        // bookkeeping: triples, shapes, event log
        let triple = format!("{}|{}|{}", op.label(), class, out.class());
        if m.t.nodes.len() <= 1 || class.starts_with("abs-err") {
            stats.trivial_triples.insert(triple);
        } else {
            stats.triples.insert(triple);
        }
        stats.shapes.insert(real.shape_hash());
        stats.bump(&format!("op.{}", op.name()));
        if out.is_err() {
            stats.bump("outcome.err");
        }
        log = hash_bytes(log, format!("{:?}", op).as_bytes());
        log = hash_bytes(log, format!("{:?}", out).as_bytes());
        log = hash_bytes(log, &real.full_hash().to_le_bytes());
        reach_probes(stats, &m, &op, &out);

        // adopt the real state (it equals the accepted alternative up to free fields) and continue
        let pre = m.t.clone();
        m.t = real.clone();
        m.after(&op, &out, &pre);
        pre_snap_tree = real;

        // attribute: only this property's oracles report; the rest is counted
        let mut stop = false;
        for v in step_violations {
            let mine = v.property == pc.id
                || (pc.integrity_oracle && v.property == "C03")
                || (pc.panic_oracle && v.property == "C12")
                || (pc.wrapper && v.property == "C13")
                || (pc.canon_twin && v.property == "C05");
            if !mine || (v.property == pc.id && v.oracle.starts_with("model-") && !pc.model_oracle) {
                *stats.other_property.entry(format!("{}:{}", v.property, v.oracle)).or_insert(0) += 1;
                continue;
            }
            let mut v = v;
            v.property = pc.id.into();
            if known(&v) {
                *stats.known_hits.entry(v.sig.clone()).or_insert(0) += 1;
                if !integrity_ok {
                    stop = true;
                    stats.runs_ended_by_known += 1;
                }
            } else {
                violations.push(v);
                stop = true;
            }
        }
        let _ = model_ok;
        // a breach that is not this property's business does not end the run: its observable
        // consequences (a listing that misses an entry, data that survives its file) are exactly
        // what the other oracles are there to see. A poisoned lock ends every run.
        if snap.poisoned || (!integrity_ok && pc.integrity_oracle) {
            stop = true;
        }
        if stop {
            ended_early = i < total;
            break;
        }
    }
    // end of run: drop handles that are still open (generated histories close theirs explicitly;
    // a minimised case may not). A panic in here is reported by the explicit drop operations.
    let _ = std::panic::catch_unwind(std::panic::AssertUnwindSafe(|| hs.clear()));
    let _ = std::panic::catch_unwind(std::panic::AssertUnwindSafe(|| whs.clear()));
    let _ = std::panic::catch_unwind(std::panic::AssertUnwindSafe(|| chs.clear()));
    if violations.is_empty() {
        let snap = fs.verif_snapshot();
        if !snap.poisoned {
            stats.bump("display_crosschecks");
            if let Ok(Err(e)) = std::panic::catch_unwind(std::panic::AssertUnwindSafe(|| display_agrees(&fs, &snap))) {
                // a disagreement between hook and Display is a harness problem, not a finding
                stats.bump("HARNESS.display_disagrees");
                eprintln!("HARNESS: hook/Display disagreement: {}", e);
            }
        }
    }
    stats.add("dir_order_calls", hk.order_calls.load(std::sync::atomic::Ordering::Relaxed));
    hooks::uninstall();
    RunOut { ops: ops_done, violations, log_hash: log, ended_early }
}

/// "This rare condition was hit" probes
fn reach_probes(stats: &mut Stats, m: &Model, op: &Op, out: &Outcome) {
    match op {
        Op::HFlush { h } | Op::HDrop { h } | Op::HDropUnwind { h } => {
            if let Some(model::MH::Write { path, buf, synced, .. }) = &m.hs[*h] {
                let dirty = buf.len() > *synced;
                if m.k(path) != K::File {
                    stats.bump("fault.F3_sync_on_removed_or_replaced_file");
                }
                if dirty && matches!(op, Op::HDrop { .. }) {
                    stats.bump("fault.F1_drop_with_unflushed_data");
                }
                if matches!(op, Op::HDropUnwind { .. }) {
                    stats.bump("fault.F2_drop_by_unwinding");
                }
                let others = m.hs.iter().filter(|x| matches!(x, Some(model::MH::Write { path: p2, .. }) if p2 == path)).count();
                if others > 1 {
                    stats.bump("fault.F4_two_live_handles_on_one_file");
                }
            }
        },
        Op::Copy { .. } | Op::CopyB { .. } => {
            if out.is_err() {
                stats.bump("probe.copy_failed");
            }
        },
        Op::Entries { o, .. } => {
            if let Outcome::Ok(Val::Entries(items, _)) = out {
                if items.iter().any(|x| matches!(x, Err(k) if k == "Path::LinkLooping")) {
                    stats.bump("probe.link_loop_reported");
                }
                if o.follow {
                    stats.bump("probe.traversal_with_follow");
                }
            }
        },
        Op::MoveP { .. } => {
            if out.is_err() {
                stats.bump("probe.move_failed");
            }
        },
        _ => {},
    }
    let _ = BTreeMap::<u8, u8>::new();
}
