//! Supervisor / worker process model, watchdog, known findings, minimisation, replay, evidence.
use std::{
    collections::BTreeMap,
    io::{BufRead, BufReader, Write},
    process::{Command, Stdio},
    sync::atomic::Ordering,
    time::{Duration, Instant},
};

use serde::{Deserialize, Serialize};
use serde_json::json;

use crate::{
    conc, diffw, envw,
    gen::{make_env, Gen},
    hooks::{Knobs, OrderMode},
    prng::{hash_str, mix, Rng},
    props,
    report::{Stats, Violation},
    seq::{self, Case, ExpectSig, Source},
    PROGRESS, TRACE,
};

pub const VERIF_DIR: &str = "/verif";
pub const HANG_SECS: u64 = 20;

#[derive(Clone, Debug, Serialize, Deserialize, Default)]
pub struct KnownEntry {
    pub property: String,
    /// exact signature, or a pattern in which `*` stands for any run of characters (used where one
    /// defect shows under a family of option / argument-class spellings)
    pub sig: String,
    pub what: String,
    pub witness: String,
}

/// `*` matches any (possibly empty) run of characters; everything else is literal
pub fn sig_matches(pattern: &str, sig: &str) -> bool {
    if !pattern.contains('*') {
        return pattern == sig;
    }
    let parts: Vec<&str> = pattern.split('*').collect();
    let mut pos = 0usize;
    for (i, part) in parts.iter().enumerate() {
        if part.is_empty() {
            continue;
        }
        if i == 0 {
            if !sig.starts_with(part) {
                return false;
            }
            pos = part.len();
        } else if i == parts.len() - 1 {
            return sig.len() >= pos + part.len() && sig[pos..].ends_with(part);
        } else {
            match sig[pos..].find(part) {
                Some(j) => pos += j + part.len(),
                None => return false,
            }
        }
    }
    true
}

#[derive(Clone, Debug, Serialize, Deserialize, Default)]
pub struct KnownFile {
    #[serde(default)]
    pub known: Vec<KnownEntry>,
    #[serde(default)]
    pub fixed: Vec<String>,
}

pub fn load_known() -> KnownFile {
    let p = format!("{}/known_findings.json", VERIF_DIR);
    match std::fs::read_to_string(&p) {
        Ok(s) => match serde_json::from_str(&s) {
            Ok(k) => k,
            Err(e) => {
                eprintln!("HARNESS: cannot parse {}: {}", p, e);
                std::process::exit(2);
            },
        },
        Err(_) => KnownFile::default(),
    }
}

#[derive(Clone, Copy, Debug, PartialEq, Eq)]
pub enum World {
    Seq,
    Conc,
    Diff,
    Env,
}

pub fn world_of(id: &str) -> World {
    match id {
        "C04" => World::Conc,
        "C02" => World::Diff,
        "C17" | "C18" => World::Env,
        _ => World::Seq,
    }
}

/// Number of runs per tier (fixed counts, so that a check is a pure function of seed and code)
pub fn budget(id: &str, tier: &str) -> u64 {
    let quick = match id {
        "C01" => 160_000,
        "C03" => 160_000,
        "C12" => 120_000,
        "C13" => 80_000,
        "C04" => 60_000,
        "C02" => 24_000,
        "C06" | "C07" => 120_000,
        "C08" | "C09" | "C10" | "C11" | "C05" => 120_000,
        "C17" | "C18" => 200_000,
        "C20" => 80_000,
        _ => 50_000,
    };
    if tier == "thorough" {
        quick * 30
    } else {
        quick
    }
}

pub fn run_len(rng: &mut Rng, max_len: usize) -> usize {
    let l = match rng.weighted(&[40, 35, 25]) {
        0 => rng.range(3, 8),
        1 => rng.range(8, 20),
        _ => rng.range(20, 60),
    };
    l.min(max_len)
}

pub fn pick_knobs(rng: &mut Rng) -> Knobs {
    let order = *rng.pick(&[OrderMode::Sorted, OrderMode::Reverse, OrderMode::Permute, OrderMode::Permute]);
    let order_key = rng.next();
    let max_desc = *rng.pick(&[None, None, None, Some(0u16), Some(1), Some(2), Some(3)]);
    Knobs { order, order_key, max_desc }
}

pub struct Finding {
    pub violation: Violation,
    pub case: serde_json::Value,
}

fn hex(x: u64) -> String {
    format!("{:016x}", x)
}

/// C07 fault enumeration: for one generated chunking of writes with flushes at arbitrary points,
/// the handle is dropped after EVERY prefix, normally and by unwinding, with the file untouched,
/// removed, replaced by a directory, replaced by a new file, or moved meanwhile, for write and for
/// append handles. Each combination is an explicit little history judged by the reference model.
fn c07_enumeration(id: &str, seed: u64, idx: u64, stats: &mut Stats, known: &dyn Fn(&Violation) -> bool) -> Option<Finding> {
    use crate::ops::{Bytes, Op};
    let pc = props::seq_cfg(id)?;
    let mut rng = Rng::new(mix(&[seed, hash_str("C07-enum"), idx]));
    let knobs = pick_knobs(&mut rng);
    let mut env = crate::refpath::Env::new();
    env.insert("HOME".into(), "/h".into());
    let k = rng.range(1, 5);
    let chunks: Vec<(Vec<u8>, bool)> = (0..k)
        .map(|i| {
            let len = *rng.pick(&[0usize, 1, 3, 7, 64, 5000]);
            let mut d = format!("<c{}.{}>", idx, i).into_bytes();
            d.extend(std::iter::repeat(b'a' + (i as u8)).take(len));
            if rng.chance(1, 6) {
                d.clear();
            }
            (d, rng.chance(1, 3))
        })
        .collect();
    let base: Vec<u8> = if rng.chance(1, 4) { vec![] } else { format!("<base{}>", idx).into_bytes() };
    let file = "/d/f".to_string();
    for append in [false, true] {
        for j in 0..=k {
            for unwind in [false, true] {
                for interference in 0..5 {
                    let mut ops = vec![Op::MkdirP { p: "/d".into() }];
                    if !base.is_empty() || rng.chance(1, 2) {
                        ops.push(Op::WriteAll { p: file.clone(), d: Bytes(base.clone()) });
                    }
                    ops.push(if append { Op::OpenAppend { h: 0, p: file.clone() } } else { Op::OpenWrite { h: 0, p: file.clone() } });
                    for (d, flush) in chunks.iter().take(j) {
                        ops.push(Op::HWrite { h: 0, d: Bytes(d.clone()) });
                        if *flush {
                            ops.push(Op::HFlush { h: 0 });
                            ops.push(Op::ReadAll { p: file.clone() });
                        }
                    }
                    match interference {
                        1 => ops.push(Op::Remove { p: file.clone() }),
                        2 => {
                            ops.push(Op::Remove { p: file.clone() });
                            ops.push(Op::MkdirP { p: file.clone() });
                        },
                        3 => {
                            ops.push(Op::Remove { p: file.clone() });
                            ops.push(Op::WriteAll { p: file.clone(), d: Bytes(b"<new>".to_vec()) });
                        },
                        4 => ops.push(Op::MoveP { s: file.clone(), d: "/d/g".into() }),
                        _ => {},
                    }
                    if interference != 0 && rng.chance(1, 3) {
                        ops.push(Op::HFlush { h: 0 });
                    }
                    ops.push(if unwind { Op::HDropUnwind { h: 0 } } else { Op::HDrop { h: 0 } });
                    ops.push(Op::ReadAll { p: file.clone() });
                    ops.push(Op::ReadAll { p: "/d/g".into() });
                    ops.push(Op::Exists { p: file.clone() });
                    let out = seq::run_seq(&pc, &knobs, &env, Source::Replay(&ops), stats, known);
                    stats.bump("fault.drop_points_enumerated");
                    stats.bump(match interference {
                        0 => "fault.F1_drop_point.file_untouched",
                        1 => "fault.F3_drop_point.file_removed",
                        2 => "fault.F3_drop_point.file_replaced_by_dir",
                        3 => "fault.F3_drop_point.file_replaced_by_new_file",
                        _ => "fault.F3_drop_point.file_moved",
                    });
                    if unwind {
                        stats.bump("fault.F2_drop_point.by_unwinding");
                    }
                    stats.distinct_cases.insert(out.log_hash);
                    if let Some(v) = out.violations.into_iter().next() {
                        let case = Case {
                            format: 1,
                            property: id.into(),
                            world: "SEQ".into(),
                            seed,
                            run: idx,
                            knobs: knobs.clone(),
                            env: env.clone(),
                            ops: out.ops,
                            expect: Some(ExpectSig { sig: v.sig.clone(), step: v.step }),
                            log_hash: hex(out.log_hash),
                            what: v.detail.clone(),
                        };
                        let case = minimise_seq(&pc, case, &v.sig);
                        let mut v = v;
                        v.detail = case.what.clone();
                        return Some(Finding { violation: v, case: serde_json::to_value(&case).unwrap() });
                    }
                }
            }
        }
    }
    None
}

/// One SEQ-world run (generation mode). Returns the first unknown violation, minimised.
fn seq_run_index(id: &str, tier: &str, seed: u64, idx: u64, stats: &mut Stats, known: &dyn Fn(&Violation) -> bool) -> Option<Finding> {
    let pc = if id == "C20" { envw::c20_cfg() } else { props::seq_cfg(id)? };
    let rs = mix(&[seed, hash_str(id), hash_str(tier), idx]);
    let mut rng = Rng::new(rs);
    let knobs = pick_knobs(&mut rng);
    let mut gen = Gen::new(pc.profile.clone(), format!("{}", idx), &mut rng);
    let env = make_env(&gen.names, &mut rng);
    let mut len = run_len(&mut rng, pc.profile.max_len);
    // scale runs: one run in 1024 starts far beyond the sizes ordinary histories reach
    if idx % 1024 == 33 && matches!(id, "C01" | "C03" | "C06" | "C08" | "C09" | "C11" | "C12" | "C13" | "C20") {
        len += gen.scale_prefix(&mut rng);
        stats.bump("scale_runs");
    }
    let out = seq::run_seq(&pc, &knobs, &env, Source::Gen { gen: &mut gen, rng: &mut rng, len }, stats, known);
    stats.add("respelled_args", gen.respelled);
    stats.add("fault.F9_hostile_args", gen.hostile_used);
    match knobs.order {
        OrderMode::Sorted => stats.bump("knob.order_sorted"),
        OrderMode::Reverse => stats.bump("fault.F7_order_reverse"),
        OrderMode::Permute => stats.bump("fault.F7_order_permuted"),
    }
    if knobs.max_desc.is_some() {
        stats.bump("fault.F8_descriptor_cap_forced");
    }
    stats.distinct_cases.insert(out.log_hash);
    if stats.samples.len() < 3 && out.ops.len() >= 4 && out.ops.len() <= 12 {
        stats.samples.push(json!({"run": idx, "knobs": knobs, "env": env, "ops": out.ops}));
    }
    let v = out.violations.into_iter().next()?;
    let case = Case {
        format: 1,
        property: id.into(),
        world: "SEQ".into(),
        seed,
        run: idx,
        knobs,
        env,
        ops: out.ops,
        expect: Some(ExpectSig { sig: v.sig.clone(), step: v.step }),
        log_hash: hex(out.log_hash),
        what: v.detail.clone(),
    };
    let case = minimise_seq(&pc, case, &v.sig);
    let mut v = v;
    if let Some(e) = &case.expect {
        v.step = e.step;
    }
    v.detail = case.what.clone();
    Some(Finding { violation: v, case: serde_json::to_value(&case).unwrap() })
}

/// Replay a SEQ case; returns the first violation (no known-finding suppression)
pub fn replay_seq(pc: &seq::PropCfg, case: &Case) -> (Option<Violation>, u64) {
    let mut st = Stats::default();
    let out = seq::run_seq(pc, &case.knobs, &case.env, Source::Replay(&case.ops), &mut st, &|_| false);
    (out.violations.into_iter().next(), out.log_hash)
}

fn minimise_seq(pc: &seq::PropCfg, mut case: Case, sig: &str) -> Case {
    let still = |c: &Case| -> Option<Violation> {
        let (v, _) = replay_seq(pc, c);
        v.filter(|v| v.sig == sig)
    };
    if still(&case).is_none() {
        // not reproducible by replay: keep as is (the supervisor will flag it)
        return case;
    }
    // truncate after the failing step
    if let Some(e) = &case.expect {
        case.ops.truncate(e.step + 1);
    }
    // delta debugging over the history
    let mut chunk = (case.ops.len() / 2).max(1);
    let mut budget = 400;
    while chunk >= 1 && budget > 0 {
        let mut i = 0;
        let mut removed_any = false;
        while i < case.ops.len() && budget > 0 {
            if case.ops.len() <= 1 {
                break;
            }
            let end = (i + chunk).min(case.ops.len());
            let mut c2 = case.clone();
            c2.ops.drain(i..end);
            budget -= 1;
            if !c2.ops.is_empty() && still(&c2).is_some() {
                case = c2;
                removed_any = true;
            } else {
                i += chunk;
            }
        }
        if chunk == 1 && !removed_any {
            break;
        }
        if !removed_any {
            chunk /= 2;
        }
    }
    // reset knobs and environment towards defaults
    for f in 0..3 {
        let mut c2 = case.clone();
        match f {
            0 => c2.knobs.order = OrderMode::Sorted,
            1 => c2.knobs.max_desc = None,
            _ => c2.knobs.order_key = 0,
        }
        if still(&c2).is_some() {
            case = c2;
        }
    }
    // shrink data
    for i in 0..case.ops.len() {
        let mut c2 = case.clone();
        let changed = match &mut c2.ops[i] {
            crate::ops::Op::WriteAll { d, .. } | crate::ops::Op::AppendAll { d, .. } | crate::ops::Op::HWrite { d, .. } if d.0.len() > 3 => {
                d.0 = format!("d{}", i).into_bytes();
                true
            },
            _ => false,
        };
        if changed && still(&c2).is_some() {
            case = c2;
        }
    }
    if let Some(v) = still(&case) {
        case.expect = Some(ExpectSig { sig: v.sig.clone(), step: v.step });
        case.what = v.detail;
        let (_, h) = replay_seq(pc, &case);
        case.log_hash = hex(h);
    }
    case
}

/// C11's quantifier names an exhaustive core: all 512 permission values x all well-formed single
/// clauses of the grammar x {file, dir, link}. Every 128th run takes the next slice of that product
/// (a second, seeded clause is appended to half of the expressions) and runs each element as a
/// little history judged by the model; the thorough tier walks the whole product several times.
fn c11_sweep(id: &str, seed: u64, idx: u64, stats: &mut Stats, known: &dyn Fn(&Violation) -> bool) -> Option<Finding> {
    use crate::ops::{ChmodCall, Op};
    let pc = props::seq_cfg(id)?;
    let mut rng = Rng::new(mix(&[seed, hash_str("C11-sweep"), idx]));
    let knobs = pick_knobs(&mut rng);
    let mut env = crate::refpath::Env::new();
    env.insert("HOME".into(), "/h".into());
    let clause = |c: u64| -> String {
        let t = ["d", "f", "a"][(c % 3) as usize];
        let c = c / 3;
        let who_bits = 1 + (c % 15);
        let c = c / 15;
        let op = ["-", "+", "="][(c % 3) as usize];
        let c = c / 3;
        let perm_bits = 1 + (c % 7);
        let mut who = String::new();
        for (i, ch) in ['u', 'g', 'o', 'a'].iter().enumerate() {
            if who_bits & (1 << i) != 0 {
                who.push(*ch);
            }
        }
        let mut perm = String::new();
        for (i, ch) in ['r', 'w', 'x'].iter().enumerate() {
            if perm_bits & (1 << i) != 0 {
                perm.push(*ch);
            }
        }
        format!("{}:{}{}{}", t, who, op, perm)
    };
    const CLAUSES: u64 = 3 * 15 * 3 * 7;
    const TOTAL: u64 = 512 * CLAUSES;
    const SLICE: u64 = 32;
    // a fixed odd stride walks the product in an order that mixes modes and clauses
    let start = (idx / 128).wrapping_mul(SLICE);
    for j in 0..SLICE {
        let e = (start + j).wrapping_mul(0x9E37_79B1) % TOTAL;
        let mode = (e % 512) as u32;
        let mut expr = clause(e / 512);
        if rng.chance(1, 2) {
            expr = format!("{},{}", expr, clause(rng.below(CLAUSES as usize) as u64));
            stats.bump("sweep.double_clause_expressions");
        } else {
            stats.bump("sweep.single_clause_expressions");
        }
        let sym = |p: &str, extra: Option<ChmodCall>| {
            let mut calls = vec![ChmodCall::Sym(expr.clone())];
            if let Some(x) = extra {
                calls.push(x);
            }
            Op::ChmodB { p: p.into(), calls }
        };
        let ops = vec![
            Op::MkfileM { p: "/f".into(), mode },
            Op::MkdirM { p: "/t".into(), mode },
            Op::MkfileM { p: "/t/g".into(), mode: mode ^ 0o777 },
            Op::Symlink { l: "/l".into(), t: "/f".into() },
            sym("/f", None),
            Op::Mode { p: "/f".into() },
            Op::IsExec { p: "/f".into() },
            Op::IsReadonly { p: "/f".into() },
            sym("/t", if rng.chance(1, 2) { Some(ChmodCall::NoRecurse) } else { None }),
            Op::Mode { p: "/t".into() },
            Op::Mode { p: "/t/g".into() },
            Op::IsExec { p: "/t".into() },
            sym("/l", if rng.chance(1, 2) { Some(ChmodCall::Follow) } else { None }),
            Op::Mode { p: "/l".into() },
            Op::Mode { p: "/f".into() },
        ];
        let out = seq::run_seq(&pc, &knobs, &env, Source::Replay(&ops), stats, known);
        stats.bump("sweep.mode_x_clause_elements");
        stats.distinct_cases.insert(out.log_hash);
        if let Some(v) = out.violations.into_iter().next() {
            let case = Case {
                format: 1,
                property: id.into(),
                world: "SEQ".into(),
                seed,
                run: idx,
                knobs: knobs.clone(),
                env: env.clone(),
                ops: out.ops,
                expect: Some(ExpectSig { sig: v.sig.clone(), step: v.step }),
                log_hash: hex(out.log_hash),
                what: v.detail.clone(),
            };
            let case = minimise_seq(&pc, case, &v.sig);
            let mut v = v;
            v.detail = case.what.clone();
            return Some(Finding { violation: v, case: serde_json::to_value(&case).unwrap() });
        }
    }
    None
}

/// k-th string over `alpha` in length-then-lexicographic order (k = 0 is the first 1-character string)
fn nth_string(alpha: &[char], mut k: u64) -> String {
    let n = alpha.len() as u64;
    let mut len = 1;
    let mut block = n;
    while k >= block {
        k -= block;
        len += 1;
        block *= n;
    }
    let mut out = vec![];
    for _ in 0..len {
        out.push(alpha[(k % n) as usize]);
        k /= n;
    }
    out.iter().rev().collect()
}

fn strings_up_to(alpha: &[char], max_len: u32) -> u64 {
    let n = alpha.len() as u64;
    (1..=max_len).map(|l| n.pow(l)).sum()
}

fn run_little_history(
    id: &str, pc: &seq::PropCfg, knobs: &crate::hooks::Knobs, env: &crate::refpath::Env, ops: &[crate::ops::Op], seed: u64, idx: u64, stats: &mut Stats,
    known: &dyn Fn(&Violation) -> bool,
) -> Option<Finding> {
    let out = seq::run_seq(pc, knobs, env, Source::Replay(ops), stats, known);
    stats.distinct_cases.insert(out.log_hash);
    let v = out.violations.into_iter().next()?;
    let case = Case {
        format: 1,
        property: id.into(),
        world: "SEQ".into(),
        seed,
        run: idx,
        knobs: knobs.clone(),
        env: env.clone(),
        ops: out.ops,
        expect: Some(ExpectSig { sig: v.sig.clone(), step: v.step }),
        log_hash: hex(out.log_hash),
        what: v.detail.clone(),
    };
    let case = minimise_seq(pc, case, &v.sig);
    let mut v = v;
    v.detail = case.what.clone();
    Some(Finding { violation: v, case: serde_json::to_value(&case).unwrap() })
}

/// C12's quantifier: "exhaustively for short lengths ... fed to every public function and method".
/// Every 128th run takes the next string of the enumeration of all strings up to length 3
/// over the adversarial alphabet and feeds each to every path-taking method (every argument
/// position) in the middle of a small ordinary history; the thorough tier walks the whole enumeration several times.
fn c12_sweep(id: &str, seed: u64, idx: u64, stats: &mut Stats, known: &dyn Fn(&Violation) -> bool) -> Option<Finding> {
    use crate::ops::{Bytes, ChmodCall, ChownCall, CopyCall, EntOpts, Op};
    let pc = props::seq_cfg(id)?;
    let mut rng = Rng::new(mix(&[seed, hash_str("C12-sweep"), idx]));
    let knobs = pick_knobs(&mut rng);
    let mut env = crate::refpath::Env::new();
    env.insert("HOME".into(), "/d".into());
    env.insert("a".into(), "v".into());
    let alpha = ['/', '.', '~', '$', ':', '{', 'a', '\u{e9}', '\u{20ac}', '\u{1f600}', '\n', ' '];
    let total = strings_up_to(&alpha, 3);
    for j in 0..1u64 {
        let k = ((idx / 128) + j) % total;
        let s = nth_string(&alpha, k);
        let x = "/d/f".to_string();
        let d = Bytes(b"x".to_vec());
        let mut calls: Vec<Op> = vec![
            Op::Abs { p: s.clone() },
            Op::AllDirs { p: s.clone() },
            Op::AllFiles { p: s.clone() },
            Op::AllPaths { p: s.clone() },
            Op::Paths { p: s.clone() },
            Op::Dirs { p: s.clone() },
            Op::Files { p: s.clone() },
            Op::AppendAll { p: s.clone(), d: d.clone() },
            Op::AppendLine { p: s.clone(), s: s.clone() },
            Op::AppendLines { p: s.clone(), ls: vec![s.clone(), String::new()] },
            Op::Chmod { p: s.clone(), mode: 0o750 },
            Op::ChmodB { p: s.clone(), calls: vec![ChmodCall::Sym(s.clone())] },
            Op::ChmodB { p: x.clone(), calls: vec![ChmodCall::Sym(s.clone())] },
            Op::ChmodB { p: s.clone(), calls: vec![ChmodCall::Follow, ChmodCall::Recurse, ChmodCall::All(0o700)] },
            Op::Chown { p: s.clone(), uid: 5, gid: 7 },
            Op::ChownB { p: s.clone(), calls: vec![ChownCall::Owner(5, 7), ChownCall::Follow, ChownCall::Recurse(true)] },
            Op::ConfigDir { name: s.clone() },
            Op::Copy { s: s.clone(), d: x.clone() },
            Op::Copy { s: x.clone(), d: s.clone() },
            Op::Copy { s: s.clone(), d: s.clone() },
            Op::CopyB { s: "/d".into(), d: s.clone(), calls: vec![CopyCall::Follow(true), CopyCall::ChmodAll(0o700)] },
            Op::CopyB { s: s.clone(), d: "/d/n".into(), calls: vec![CopyCall::Follow(true)] },
            Op::SetCwd { p: s.clone() },
            Op::Entries { p: s.clone(), o: EntOpts { follow: true, contents_first: true, sort_by_name: true, ..EntOpts::default() } },
            Op::Entries { p: s.clone(), o: EntOpts::default() },
            Op::Entry { p: s.clone() },
            Op::Exists { p: s.clone() },
            Op::IsDir { p: s.clone() },
            Op::IsFile { p: s.clone() },
            Op::IsExec { p: s.clone() },
            Op::IsReadonly { p: s.clone() },
            Op::IsSymlink { p: s.clone() },
            Op::IsSymlinkDir { p: s.clone() },
            Op::IsSymlinkFile { p: s.clone() },
            Op::Gid { p: s.clone() },
            Op::Uid { p: s.clone() },
            Op::Owner { p: s.clone() },
            Op::Mode { p: s.clone() },
            Op::MkdirM { p: s.clone(), mode: 0o700 },
            Op::MkdirP { p: s.clone() },
            Op::Mkfile { p: s.clone() },
            Op::MkfileM { p: s.clone(), mode: 0o600 },
            Op::MoveP { s: s.clone(), d: x.clone() },
            Op::MoveP { s: x.clone(), d: s.clone() },
            Op::MoveP { s: "/d".into(), d: s.clone() },
            Op::ReadAll { p: s.clone() },
            Op::ReadLines { p: s.clone() },
            Op::Readlink { p: s.clone() },
            Op::ReadlinkAbs { p: s.clone() },
            Op::Remove { p: s.clone() },
            Op::RemoveAll { p: s.clone() },
            Op::Symlink { l: s.clone(), t: x.clone() },
            Op::Symlink { l: "/d/k".into(), t: s.clone() },
            Op::Symlink { l: s.clone(), t: s.clone() },
            Op::WriteAll { p: s.clone(), d: d.clone() },
            Op::WriteLines { p: s.clone(), ls: vec![s.clone()] },
            Op::OpenRead { h: 0, p: s.clone() },
            Op::OpenWrite { h: 0, p: s.clone() },
            Op::OpenAppend { h: 0, p: s.clone() },
            Op::Expand { p: s.clone() },
        ];
        for f in [
            "trim_prefix", "trim_suffix", "trim_ext", "trim_first", "trim_last", "trim_protocol", "mash", "relative", "clean", "expand", "base", "dir", "name", "ext",
            "first", "last", "concat", "has", "parse_paths", "str_ext",
        ] {
            calls.push(Op::PathFn { f: f.into(), a: s.clone(), b: "/d".into() });
            calls.push(Op::PathFn { f: f.into(), a: "/d/f.x".into(), b: s.clone() });
            calls.push(Op::PathFn { f: f.into(), a: s.clone(), b: s.clone() });
        }
        for call in calls {
            let cwd = if rng.chance(1, 2) { "/d" } else { "/" };
            let mut ops = vec![
                Op::MkdirP { p: "/d/e".into() },
                Op::WriteAll { p: "/d/f".into(), d: Bytes(b"one\ntwo".to_vec()) },
                Op::Symlink { l: "/d/l".into(), t: "/d/e".into() },
                Op::SetCwd { p: cwd.into() },
            ];
            let opened = matches!(call, Op::OpenRead { .. } | Op::OpenWrite { .. } | Op::OpenAppend { .. });
            ops.push(call);
            if opened {
                ops.push(Op::HWrite { h: 0, d: Bytes(b"y".to_vec()) });
                ops.push(Op::HReadToEnd { h: 0 });
                ops.push(Op::HDrop { h: 0 });
            }
            ops.push(Op::AllPaths { p: "/".into() });
            stats.bump("sweep.short_string_x_method_elements");
            if let Some(f) = run_little_history(id, &pc, &knobs, &env, &ops, seed, idx, stats, known) {
                return Some(f);
            }
        }
        stats.bump("sweep.short_strings_walked");
    }
    None
}

/// C05's quantifier: strings over {separator, dot, '~', '$', ':', a letter, a multi-byte character}
/// "up to a length bound (exhaustive)", for all cwd values of a bounded tree and several HOME
/// values. Every 128th run takes the next 16 strings of the enumeration up to length 5 and judges
/// abs(s) and one other method called with s against the reference resolver / the canonical twin
/// under every (cwd, HOME) pair; the thorough tier walks the whole enumeration.
fn c05_sweep(id: &str, seed: u64, idx: u64, stats: &mut Stats, known: &dyn Fn(&Violation) -> bool) -> Option<Finding> {
    use crate::ops::{Bytes, Op};
    let pc = props::seq_cfg(id)?;
    let mut rng = Rng::new(mix(&[seed, hash_str("C05-sweep"), idx]));
    let knobs = pick_knobs(&mut rng);
    let alpha = ['/', '.', '~', '$', ':', 'a', '\u{e9}'];
    let total = strings_up_to(&alpha, 5);
    for j in 0..16u64 {
        let k = ((idx / 128) * 16 + j) % total;
        let s = nth_string(&alpha, k);
        for home in [None, Some("/"), Some("/a"), Some("/a/b")] {
            for cwd in ["/", "/a", "/a/b"] {
                let mut env = crate::refpath::Env::new();
                if let Some(h) = home {
                    env.insert("HOME".into(), h.into());
                }
                env.insert("a".into(), "a/b".into());
                let other = match rng.below(6) {
                    0 => Op::MkdirP { p: s.clone() },
                    1 => Op::WriteAll { p: s.clone(), d: Bytes(b"w".to_vec()) },
                    2 => Op::Exists { p: s.clone() },
                    3 => Op::Symlink { l: s.clone(), t: "/a".into() },
                    4 => Op::Paths { p: s.clone() },
                    _ => Op::Remove { p: s.clone() },
                };
                let ops = vec![
                    Op::MkdirP { p: "/a/b".into() },
                    Op::WriteAll { p: "/a/f".into(), d: Bytes(b"f".to_vec()) },
                    Op::SetCwd { p: cwd.into() },
                    Op::Abs { p: s.clone() },
                    other,
                    Op::Abs { p: s.clone() },
                ];
                stats.bump("sweep.string_x_cwd_x_home_elements");
                if let Some(f) = run_little_history(id, &pc, &knobs, &env, &ops, seed, idx, stats, known) {
                    return Some(f);
                }
            }
        }
        stats.bump("sweep.short_strings_walked");
    }
    None
}

/// Dispatch one run of any world
pub fn run_index(id: &str, tier: &str, seed: u64, idx: u64, stats: &mut Stats, known: &dyn Fn(&Violation) -> bool) -> Option<Finding> {
    if id == "C03" && idx % 8 == 7 {
        // "at quiescence after every explored concurrent schedule": the CONC leg of C03
        return conc::run_index(id, tier, seed, idx, stats, known);
    }
    if id == "C07" && idx % 160 == 3 {
        return c07_enumeration(id, seed, idx, stats, known);
    }
    if (id == "C13" || id == "C05") && idx % 16 == 9 {
        // the real backend's side of the property: two sibling sandboxes
        return diffw::twin_index(id, tier, seed, idx, stats, known);
    }
    if id == "C12" && idx % 128 == 19 {
        return c12_sweep(id, seed, idx, stats, known);
    }
    if id == "C05" && idx % 128 == 19 {
        return c05_sweep(id, seed, idx, stats, known);
    }
    if id == "C11" && idx % 128 == 11 {
        return c11_sweep(id, seed, idx, stats, known);
    }
    if (id == "C09" || id == "C10") && idx % 16 == 13 {
        // the real backend alone on trees with indirect links (outside the comparison domain)
        return diffw::solo_index(id, tier, seed, idx, stats, known);
    }
    if diffw::leg(id).is_some() && idx % 8 == 5 {
        // "on both backends": the DIFF leg of this property
        stats.bump("diff_leg_runs");
        return diffw::run_index(id, tier, seed, idx, stats, known);
    }
    match world_of(id) {
        World::Seq => seq_run_index(id, tier, seed, idx, stats, known),
        World::Conc => conc::run_index(id, tier, seed, idx, stats, known),
        World::Diff => diffw::run_index(id, tier, seed, idx, stats, known),
        World::Env => envw::run_index(id, tier, seed, idx, stats, known),
    }
}

/// Replay any case file content; returns (violation, log hash)
pub fn replay_value(case: &serde_json::Value) -> Result<(Option<Violation>, String), String> {
    let world = case.get("world").and_then(|w| w.as_str()).unwrap_or("");
    let prop = case.get("property").and_then(|w| w.as_str()).unwrap_or("").to_string();
    match world {
        "SEQ" => {
            let c: Case = serde_json::from_value(case.clone()).map_err(|e| e.to_string())?;
            let pc = if prop == "C20" { envw::c20_cfg() } else { props::seq_cfg(&prop).ok_or("unknown property")? };
            let (v, h) = replay_seq(&pc, &c);
            Ok((v, hex(h)))
        },
        "TRACE" => {
            // re-generated from the seed (hang / crash witnesses of the non-SEQ worlds)
            let tier = case.get("tier").and_then(|t| t.as_str()).unwrap_or("quick");
            let seed = case.get("seed").and_then(|t| t.as_u64()).unwrap_or(1);
            let run = case.get("run").and_then(|t| t.as_u64()).unwrap_or(0);
            let mut st = Stats::default();
            let f = run_index(&prop, tier, seed, run, &mut st, &|_| false);
            Ok((f.map(|f| f.violation), String::new()))
        },
        "TWIN" => diffw::replay_twin(case),
        "SOLO" => diffw::replay_solo(case),
        "CONC" => conc::replay(case),
        "DIFF" => diffw::replay(case),
        "ENV" => envw::replay(case),
        _ => Err(format!("unknown world {:?}", world)),
    }
}

fn start_watchdog() {
    std::thread::spawn(|| {
        let mut last = PROGRESS.load(Ordering::Relaxed);
        let mut since = Instant::now();
        loop {
            std::thread::sleep(Duration::from_millis(500));
            let cur = PROGRESS.load(Ordering::Relaxed);
            if cur != last {
                last = cur;
                since = Instant::now();
            } else if since.elapsed().as_secs() >= HANG_SECS {
                // wall clock is used only to *declare* a hang, never to make a choice
                println!("{}", json!({"t": "hang", "run": cur}));
                let _ = std::io::stdout().flush();
                std::process::exit(3);
            }
        }
    });
}

/// worker <ID> <tier> <seed> <start> <stride> <end>
pub fn worker(a: &[String]) -> i32 {
    let (id, tier) = (a[0].as_str(), a[1].as_str());
    let seed: u64 = a[2].parse().unwrap();
    let start: u64 = a[3].parse().unwrap();
    let stride: u64 = a[4].parse().unwrap();
    let end: u64 = a[5].parse().unwrap();
    crate::exec::silence_panics();
    unsafe {
        libc::umask(0o022);
    }
    let known_file = load_known();
    let known_sigs: Vec<String> = known_file.known.iter().filter(|k| k.property == id).map(|k| k.sig.clone()).collect();
    let known = move |v: &Violation| known_sigs.iter().any(|k| sig_matches(k, &v.sig));
    start_watchdog();
    let mut stats = Stats::default();
    let mut idx = start;
    let out = std::io::stdout();
    let mut found = 0;
    while idx < end {
        // the watchdog reads this value back as "the run that hangs"
        PROGRESS.store(idx + 1, Ordering::Relaxed);
        {
            // and the supervisor learns from the last marker which run killed a worker
            let mut o = out.lock();
            let _ = writeln!(o, "R {}", idx);
        }
        if let Some(f) = run_index(id, tier, seed, idx, &mut stats, &known) {
            let mut o = out.lock();
            let _ = writeln!(o, "{}", json!({"t": "viol", "run": idx, "violation": f.violation, "case": f.case}));
            let _ = o.flush();
            found += 1;
            if found >= 3 {
                break;
            }
        }
        idx += stride;
    }
    let mut o = out.lock();
    let _ = writeln!(o, "{}", json!({"t": "done", "next": idx, "stats": stats}));
    let _ = o.flush();
    0
}

/// trace <ID> <tier> <seed> <run>: announce every operation before executing it
pub fn trace(a: &[String]) -> i32 {
    TRACE.store(true, Ordering::Relaxed);
    crate::exec::silence_panics();
    unsafe {
        libc::umask(0o022);
    }
    let seed: u64 = a[2].parse().unwrap();
    let idx: u64 = a[3].parse().unwrap();
    let mut stats = Stats::default();
    let f = run_index(&a[0], &a[1], seed, idx, &mut stats, &|_| false);
    println!("{}", json!({"t": "trace-done", "found": f.is_some()}));
    0
}

fn self_exe() -> std::path::PathBuf {
    std::env::current_exe().expect("current_exe")
}

enum WorkerEnd {
    Done { stats: Stats },
    Hang { run: u64 },
    Crashed { code: Option<i32>, stderr: String, last_run: Option<u64> },
}

fn spawn_worker(id: &str, tier: &str, seed: u64, start: u64, stride: u64, end: u64) -> std::thread::JoinHandle<(Vec<(Violation, serde_json::Value)>, WorkerEnd)> {
    let (id, tier) = (id.to_string(), tier.to_string());
    std::thread::spawn(move || {
        let mut child = Command::new(self_exe())
            .args(["worker", &id, &tier, &seed.to_string(), &start.to_string(), &stride.to_string(), &end.to_string()])
            .stdout(Stdio::piped())
            .stderr(Stdio::piped())
            .spawn()
            .expect("spawn worker");
        let stdout = child.stdout.take().unwrap();
        let stderr = child.stderr.take().unwrap();
        let errt = std::thread::spawn(move || {
            let mut s = String::new();
            for l in BufReader::new(stderr).lines().map_while(Result::ok) {
                if s.len() < 4000 {
                    s.push_str(&l);
                    s.push('\n');
                }
            }
            s
        });
        let mut viols = vec![];
        let mut end_state = None;
        let mut last_run: Option<u64> = None;
        for line in BufReader::new(stdout).lines().map_while(Result::ok) {
            if let Some(r) = line.strip_prefix("R ") {
                last_run = r.parse().ok();
                continue;
            }
            let v: serde_json::Value = match serde_json::from_str(&line) {
                Ok(v) => v,
                Err(_) => continue,
            };
            match v.get("t").and_then(|t| t.as_str()) {
                Some("viol") => {
                    if let Ok(vi) = serde_json::from_value::<Violation>(v["violation"].clone()) {
                        viols.push((vi, v["case"].clone()));
                    }
                },
                Some("done") => {
                    if let Ok(st) = serde_json::from_value::<Stats>(v["stats"].clone()) {
                        end_state = Some(WorkerEnd::Done { stats: st });
                    }
                },
                Some("hang") => {
                    end_state = Some(WorkerEnd::Hang { run: v["run"].as_u64().unwrap_or(1) - 1 });
                },
                _ => {},
            }
        }
        let pid = child.id();
        let status = child.wait().ok();
        // a worker that was killed or crashed cannot remove its private sandbox itself
        let _ = std::fs::remove_dir_all(format!("/dev/shm/rvsim-{}", pid));
        let err = errt.join().unwrap_or_default();
        let end_state = end_state.unwrap_or(WorkerEnd::Crashed { code: status.and_then(|s| s.code()), stderr: err, last_run });
        (viols, end_state)
    })
}

/// Re-run one seed in trace mode in a fresh process to locate the step that does not return
fn trace_case(id: &str, tier: &str, seed: u64, run: u64, ops: &[serde_json::Value], header: &Option<serde_json::Value>, sig: &str, what: &str) -> serde_json::Value {
    let step = ops.len().saturating_sub(1);
    match header {
        // SEQ world: an explicit, generator-independent case
        Some(h) => json!({"format":1, "property": id, "world": "SEQ", "seed": seed, "run": run,
            "knobs": h["knobs"], "env": h["env"], "ops": ops.iter().map(|o| o["op"].clone()).collect::<Vec<_>>(),
            "expect": {"sig": sig, "step": step}, "log_hash": "", "what": what}),
        // other worlds: re-generated from the seed on replay
        None => json!({"format":1, "property": id, "world": "TRACE", "seed": seed, "run": run, "tier": tier,
            "ops": ops, "expect": {"sig": sig, "step": step}, "what": what}),
    }
}

fn locate_hang(id: &str, tier: &str, seed: u64, run: u64) -> (Vec<serde_json::Value>, bool, Option<serde_json::Value>) {
    let mut child = Command::new(self_exe())
        .args(["trace", id, tier, &seed.to_string(), &run.to_string()])
        .stdout(Stdio::piped())
        .stderr(Stdio::null())
        .spawn()
        .expect("spawn trace");
    let stdout = child.stdout.take().unwrap();
    let (tx, rx) = std::sync::mpsc::channel();
    std::thread::spawn(move || {
        for line in BufReader::new(stdout).lines().map_while(Result::ok) {
            let _ = tx.send(line);
        }
    });
    let mut ops = vec![];
    let mut header = None;
    let mut finished = false;
    let mut last = Instant::now();
    loop {
        match rx.recv_timeout(Duration::from_millis(200)) {
            Ok(line) => {
                last = Instant::now();
                if let Some(rest) = line.strip_prefix("T0 ") {
                    header = serde_json::from_str::<serde_json::Value>(rest).ok();
                    ops.clear();
                } else if let Some(rest) = line.strip_prefix("T ") {
                    if let Ok(v) = serde_json::from_str::<serde_json::Value>(rest) {
                        ops.push(v);
                    }
                } else if line.contains("trace-done") {
                    finished = true;
                    break;
                }
            },
            Err(std::sync::mpsc::RecvTimeoutError::Timeout) => {
                if last.elapsed().as_secs() >= 8 {
                    break;
                }
            },
            Err(_) => break,
        }
    }
    let pid = child.id();
    let _ = child.kill();
    let _ = child.wait();
    let _ = std::fs::remove_dir_all(format!("/dev/shm/rvsim-{}", pid));
    (ops, finished, header)
}

/// where evidence and new replay files go (background exploration runs use their own directory)
fn out_dir() -> String {
    std::env::var("RVSIM_OUT").unwrap_or_else(|_| VERIF_DIR.to_string())
}

fn write_replay(id: &str, sig: &str, case: &serde_json::Value, dir: &str) -> String {
    let d = format!("{}/{}", out_dir(), dir);
    let _ = std::fs::create_dir_all(&d);
    let path = format!("{}/{}-{:08x}.json", d, id, hash_str(sig) as u32);
    let _ = std::fs::write(&path, serde_json::to_string_pretty(case).unwrap());
    path
}

/// Replay a file in a child process with a time bound; returns Some(sig) / "hang" / None
fn replay_child(path: &str, bound: Duration) -> Result<Option<String>, String> {
    let mut child = Command::new(self_exe()).args(["replay", path, "--inner"]).stdout(Stdio::piped()).stderr(Stdio::null()).spawn().map_err(|e| e.to_string())?;
    let start = Instant::now();
    loop {
        match child.try_wait() {
            Ok(Some(_)) => break,
            Ok(None) => {
                if start.elapsed() > bound {
                    let pid = child.id();
                    let _ = child.kill();
                    let _ = child.wait();
                    let _ = std::fs::remove_dir_all(format!("/dev/shm/rvsim-{}", pid));
                    return Ok(Some("hang".into()));
                }
                std::thread::sleep(Duration::from_millis(20));
            },
            Err(e) => return Err(e.to_string()),
        }
    }
    let mut s = String::new();
    use std::io::Read;
    let _ = child.stdout.take().unwrap().read_to_string(&mut s);
    for l in s.lines() {
        if let Some(rest) = l.strip_prefix("REPLAY sig=") {
            return Ok(Some(rest.to_string()));
        }
        if l.starts_with("REPLAY none") {
            return Ok(None);
        }
    }
    // the replaying process died without a verdict: the case kills its process
    Ok(Some("crash".into()))
}

/// replay <file>: exit 1 + VIOLATION line when the recorded violation reproduces, 0 when not, 2 on harness error
pub fn replay_cmd(path: &str, inner: bool) -> i32 {
    crate::exec::silence_panics();
    unsafe {
        libc::umask(0o022);
    }
    let text = match std::fs::read_to_string(path) {
        Ok(t) => t,
        Err(e) => {
            eprintln!("HARNESS: cannot read {}: {}", path, e);
            return 2;
        },
    };
    let case: serde_json::Value = match serde_json::from_str(&text) {
        Ok(c) => c,
        Err(e) => {
            eprintln!("HARNESS: cannot parse {}: {}", path, e);
            return 2;
        },
    };
    let prop = case.get("property").and_then(|p| p.as_str()).unwrap_or("?").to_string();
    let expect_sig = case.get("expect").and_then(|e| e.get("sig")).and_then(|s| s.as_str()).map(|s| s.to_string());
    if inner {
        match replay_value(&case) {
            Ok((Some(v), h)) => {
                println!("REPLAY sig={}", v.sig);
                println!("DETAIL step={} {} log={}", v.step, v.detail, h);
            },
            Ok((None, _)) => println!("REPLAY none"),
            Err(e) => {
                eprintln!("HARNESS: {}", e);
                return 2;
            },
        }
        return 0;
    }
    match replay_child(path, Duration::from_secs(HANG_SECS)) {
        Ok(Some(sig)) => {
            let expected_hang = expect_sig.as_deref().map(|s| s.starts_with("hang|")).unwrap_or(false);
            let expected_crash = expect_sig.as_deref().map(|s| s.starts_with("crash|")).unwrap_or(false);
            if Some(&sig) == expect_sig.as_ref() || (sig == "hang" && expected_hang) || (sig == "crash" && expected_crash) || expect_sig.is_none() {
                println!("VIOLATION property={} replay={}", prop, path);
                println!("  reproduced: {}", sig);
                1
            } else {
                eprintln!("HARNESS: replay gave a different signature: {} (recorded {:?})", sig, expect_sig);
                2
            }
        },
        Ok(None) => {
            println!("replay of {}: recorded violation does not reproduce on this tree", path);
            0
        },
        Err(e) => {
            eprintln!("HARNESS: {}", e);
            2
        },
    }
}

fn level_of(id: &str) -> &'static str {
    match id {
        "C07" => "fault_enumeration",
        _ => "exploration",
    }
}

/// check <ID> <tier>
pub fn check(id: &str, tier: &str, extra: &[String]) -> i32 {
    if !props::ALL_PROPS.contains(&id) || !(tier == "quick" || tier == "thorough") {
        eprintln!("HARNESS: unknown property or tier");
        return 2;
    }
    let t0 = Instant::now();
    let seed: u64 = std::env::var("VERIF_SEED").ok().and_then(|s| s.parse().ok()).unwrap_or(1);
    let mut workers: u64 = std::thread::available_parallelism().map(|n| n.get() as u64).unwrap_or(8).min(16);
    let mut runs = budget(id, tier);
    let mut i = 0;
    while i < extra.len() {
        match extra[i].as_str() {
            "--workers" => {
                workers = extra[i + 1].parse().unwrap_or(workers);
                i += 1;
            },
            "--runs" => {
                runs = extra[i + 1].parse().unwrap_or(runs);
                i += 1;
            },
            _ => {},
        }
        i += 1;
    }
    let known = load_known();
    let mut exit = 0;
    let mut known_lines = vec![];

    // 1. known findings of this property: replay the witnesses
    for k in known.known.iter().filter(|k| k.property == id) {
        let wpath = format!("{}/{}", VERIF_DIR, k.witness);
        let bound = if k.sig.starts_with("hang|") { Duration::from_secs(3) } else { Duration::from_secs(HANG_SECS) };
        match replay_child(&wpath, bound) {
            Ok(Some(sig)) if sig_matches(&k.sig, &sig) || (sig == "hang" && k.sig.starts_with("hang|")) || (sig == "crash" && k.sig.starts_with("crash|")) => {
                println!("KNOWN-FINDING: property={} {}", id, k.what);
                known_lines.push(k.what.clone());
            },
            Ok(other) => {
                println!("note: known finding no longer reproduces from its witness ({}): {:?}", k.witness, other);
            },
            Err(e) => {
                eprintln!("HARNESS: witness replay failed for {}: {}", k.witness, e);
                return 2;
            },
        }
    }

    // 2. exploration on worker processes
    let mut handles = vec![];
    for w in 0..workers {
        handles.push((w, spawn_worker(id, tier, seed, w, workers, runs)));
    }
    let mut total = Stats::default();
    let mut found: Vec<(Violation, serde_json::Value)> = vec![];
    let mut hangs = 0;
    let mut pending: Vec<(u64, std::thread::JoinHandle<_>)> = handles;
    while let Some((w, h)) = pending.pop() {
        let (viols, end) = h.join().expect("worker thread");
        found.extend(viols);
        match end {
            WorkerEnd::Done { stats } => total.merge(stats),
            WorkerEnd::Hang { run } => {
                hangs += 1;
                let (ops, finished, header) = locate_hang(id, tier, seed, run);
                if finished {
                    // did not hang in a fresh process: machine stall, not a finding
                    eprintln!("note: watchdog fired for run {} but the run completes in trace mode; ignored", run);
                } else {
                    let last = ops.last().cloned().unwrap_or(json!(null));
                    let label = last.get("label").and_then(|l| l.as_str()).unwrap_or("?").to_string();
                    let sig = format!("hang|{}", label);
                    let case = trace_case(id, tier, seed, run, &ops, &header, &sig, "operation does not return (watchdog)");
                    let v = Violation { property: id.into(), oracle: "hang".into(), step: ops.len().saturating_sub(1), sig: sig.clone(), detail: format!("run {} never returns from {}", run, last) };
                    if known.known.iter().any(|k| k.property == id && sig_matches(&k.sig, &sig)) {
                        *total.known_hits.entry(sig).or_insert(0) += 1;
                    } else {
                        found.push((v, case));
                    }
                }
                if hangs < 6 {
                    pending.push((w, spawn_worker(id, tier, seed, run + workers, workers, runs)));
                }
            },
            WorkerEnd::Crashed { code, stderr, last_run } => {
                // a worker killed by the code under test (abort on a panic inside a destructor
                // during unwinding, stack overflow ...) is a finding if it reproduces in isolation
                let mut explained = false;
                if let Some(run) = last_run {
                    hangs += 1;
                    let (ops, finished, header) = locate_hang(id, tier, seed, run);
                    if !finished {
                        let last = ops.last().cloned().unwrap_or(json!(null));
                        let label = last.get("label").and_then(|l| l.as_str()).unwrap_or("?").to_string();
                        let sig = format!("crash|{}", label);
                        let case = trace_case(id, tier, seed, run, &ops, &header, &sig, "the process running the simulation dies inside this operation");
                        let v = Violation { property: id.into(), oracle: "process-crash".into(), step: ops.len().saturating_sub(1), sig: sig.clone(), detail: format!("run {} kills its process in {} (exit {:?}) {}", run, last, code, stderr.lines().next().unwrap_or("")) };
                        if known.known.iter().any(|k| k.property == id && sig_matches(&k.sig, &sig)) {
                            *total.known_hits.entry(sig).or_insert(0) += 1;
                        } else {
                            found.push((v, case));
                        }
                        explained = true;
                        if hangs < 6 {
                            pending.push((w, spawn_worker(id, tier, seed, run + workers, workers, runs)));
                        }
                    }
                }
                if !explained {
                    eprintln!("HARNESS: worker {} died (code {:?}): {}", w, code, stderr);
                    exit = 2;
                }
            },
        }
    }

    // 3. report
    found.sort_by(|a, b| a.0.sig.cmp(&b.0.sig));
    found.dedup_by(|a, b| a.0.sig == b.0.sig);
    let mut reported = 0;
    for (v, case) in &found {
        let path = write_replay(id, &v.sig, case, "replays/new");
        println!("VIOLATION property={} replay={}", id, path);
        println!("  oracle={} sig={}", v.oracle, v.sig);
        println!("  {}", v.detail.chars().take(600).collect::<String>());
        reported += 1;
        if exit == 0 {
            exit = 1;
        }
    }
    if total.counters.get("HARNESS.display_disagrees").copied().unwrap_or(0) > 0 {
        eprintln!("HARNESS: snapshot hook disagrees with Display rendering");
        exit = 2;
    }

    // 4. evidence
    let wall = t0.elapsed().as_secs_f64();
    write_evidence(id, tier, seed, &total, reported, &known_lines, wall, workers);
    println!(
        "{} {}: runs={} steps={} distinct_nontrivial={} known_hits={} violations={} wall={:.1}s",
        id,
        tier,
        total.runs,
        total.steps,
        total.triples.len(),
        total.known_hits.values().sum::<u64>(),
        reported,
        wall
    );
    exit
}

fn write_evidence(id: &str, tier: &str, seed: u64, st: &Stats, violations: usize, known_lines: &[String], wall: f64, workers: u64) {
    let world = world_of(id);
    let faults: BTreeMap<&String, &u64> = st.counters.iter().filter(|(k, _)| k.starts_with("fault.")).collect();
    let probes: BTreeMap<&String, &u64> = st.counters.iter().filter(|(k, _)| k.starts_with("probe.")).collect();
    let opsc: BTreeMap<&String, &u64> = st.counters.iter().filter(|(k, _)| k.starts_with("op.")).collect();
    let other: BTreeMap<&String, &u64> = st
        .counters
        .iter()
        .filter(|(k, _)| !k.starts_with("op.") && !k.starts_with("probe.") && !k.starts_with("fault.") && !k.starts_with("wrapper_compared."))
        .collect();
    let wrapper: BTreeMap<&String, &u64> = st.counters.iter().filter(|(k, _)| k.starts_with("wrapper_compared.")).collect();
    let mut samples = st.samples.clone();
    if samples.is_empty() {
        samples.push(json!({"note": "no sample captured"}));
    }
    let (rule, real, stub) = match world {
        World::Seq => (
            "one run = swarm configuration + generated operation history on a fresh Memfs, judged step by step against the reference model / invariants; evaluations = executed steps; a case is the triple (operation label incl. option flags | pre-state class of every path argument and their relation | outcome class); non-trivial = the tree held more than the root before the call and argument resolution succeeded; distinct_nontrivial counts distinct such triples",
            vec!["all of rivia (Memfs, MemfsFile, Entries/EntriesIter, path helpers, Chmod/Chown/Copier, assert macros)", "std RwLock"],
            vec!["RefFs reference model and ref path resolver (oracle)", "process environment table", "directory enumeration order and descriptor cap (hooks H3/H4)"],
        ),
        World::Conc => (
            "one run = setup history + 2-3 client threads x 1-3 operations on one shared Memfs under a seeded controlled scheduler; evaluations = (program, schedule) executions; a case is the pair (program hash, schedule hash); non-trivial = at least one context switch between critical sections of different threads; distinct_nontrivial counts distinct such pairs",
            vec!["all of rivia incl. the real RwLock, guards, critical sections and poison flag", "real OS threads (parked, released one at a time)"],
            vec!["lock admission policy (writer-preferring RwLock model)", "scheduler", "sequential re-execution of the real code as specification"],
        ),
        World::Diff => (
            "one run = pre-state tree materialised on a tmpfs sandbox with std::fs and in Memfs through its API, then one call or a short history applied to both backends; evaluations = compared calls; a case is the triple (operation label | pre-state class | outcome-class pair); non-trivial = pre-state holds entries besides the sandbox root; distinct_nontrivial counts distinct such triples",
            vec!["all of rivia (Stdfs over std::fs and the kernel tmpfs, Memfs)", "kernel tmpfs under /dev/shm"],
            vec!["independent std::fs observer (oracle)", "process cwd / umask / environment owned by the worker"],
        ),
        World::Env => (
            "one run = an environment table installed in the worker process + a batch of lookups / expansions judged by a reference evaluator; evaluations = judged calls; a case is (call kind | class of every involved variable | outcome class); non-trivial = at least one variable involved is set, empty or malformed (not the ambient default); distinct_nontrivial counts distinct such cases",
            vec!["rivia path::expand, home_dir, user::*, config_dir of both backends"],
            vec!["environment table (simulator-owned process environment)", "reference expander / XDG lookup (oracle)"],
        ),
    };
    let hours = wall / 3600.0;
    let ev = json!({
        "property_id": id,
        "tier": tier,
        "seed": seed,
        "level": level_of(id),
        "coverage": {
            "evaluations": st.steps.max(1),
            "distinct_nontrivial": st.triples.len(),
            "rule": rule,
            "samples": samples,
            "simulated_runs": st.runs,
            "runs_per_hour": if hours > 0.0 { (st.runs as f64 / hours) as u64 } else { 0 },
            "seeds_per_hour": if hours > 0.0 { (st.runs as f64 / hours) as u64 } else { 0 },
            "simulated_time": "none: the code under test has no clocks or timers; logical time = steps and scheduler events",
            "logical_steps": st.steps,
            "scheduler_events": st.sched_events,
            "skipped_steps": st.skipped_steps,
            "distinct_trivial": st.trivial_triples.len(),
            "distinct_abstract_states": st.shapes.len(),
            "distinct_executions": st.distinct_cases.len(),
            "faults_fired": faults,
            "reach_probes": probes,
            "operations": opsc,
            "wrapper_comparisons": wrapper,
            "counters": other,
            "known_findings_hit": st.known_hits,
            "known_findings_replayed": known_lines,
            "runs_ended_by_known_finding": st.runs_ended_by_known,
            "violations_of_other_properties_seen_not_reported": st.other_property,
            "real_components": real,
            "stubbed_or_modelled": stub,
            "workers": workers,
            "build_profile": "release, opt-level=2, overflow-checks=on, debug-assertions=on, --cfg rivia_verif"
        },
        "assumptions": [
            "sampling, not enumeration: a clean batch is evidence, not proof",
            "SEQ / CONC / ENV runs execute as the invoking user (uid 0 in this sandbox); DIFF-world workers (C02, the DIFF legs and Stdfs twins) drop to uid 65534 and keep owner access on everything they create, so no kernel permission fault is injected",
            "umask 022",
            "reference model (RefFs), reference path resolver and hook H2 snapshot are trusted; the snapshot is cross-checked against Display",
            "CONC: writer-preferring lock admission model (std futex RwLock on Linux); operations that hang or panic sequentially are judged by C12, not scheduled"
        ],
        "wall_s": wall,
        "violations": violations
    });
    let d = format!("{}/evidence", out_dir());
    let _ = std::fs::create_dir_all(&d);
    let _ = std::fs::write(format!("{}/{}.json", d, id), serde_json::to_string_pretty(&ev).unwrap());
}

/// selftest <ID> [n]: determinism - run n seeds twice in this process order-shuffled and compare log hashes
pub fn selftest(a: &[String]) -> i32 {
    crate::exec::silence_panics();
    unsafe {
        libc::umask(0o022);
    }
    let id = a[0].as_str();
    let n: u64 = a.get(1).and_then(|s| s.parse().ok()).unwrap_or(2000);
    let offset: u64 = a.get(2).and_then(|s| s.parse().ok()).unwrap_or(0);
    let seed: u64 = std::env::var("VERIF_SEED").ok().and_then(|s| s.parse().ok()).unwrap_or(1);
    // prints one line per run: index and the identity of its event log; two invocations (different
    // processes, worker counts, orders) must print identical sets
    let mut idxs: Vec<u64> = (offset..offset + n).collect();
    if a.iter().any(|x| x == "--reverse") {
        idxs.reverse();
    }
    let mut lines = vec![];
    for idx in idxs {
        let mut st = Stats::default();
        let f = run_index(id, "quick", seed, idx, &mut st, &|_| false);
        let h = st.distinct_cases.iter().next().copied().unwrap_or(0);
        lines.push((idx, h, f.map(|f| f.violation.sig).unwrap_or_default()));
    }
    lines.sort();
    for (i, h, s) in lines {
        println!("{} {:016x} {}", i, h, s);
    }
    0
}
