//! C08 oracle: an independent traversal of the reference tree decides which entries `entries()`
//! must yield for a given option set, and which order constraints the yielded sequence must obey.
//! Only the stated constraints are checked; unsorted sibling order is free.
use std::collections::BTreeMap;

use crate::{
    model::{Model, K},
    ops::*,
    prng::hash_str,
    tree::parent,
};

fn view_of(m: &Model, p: &str) -> Option<EntryView> {
    if m.k(p) == K::Missing {
        return None;
    }
    match m.eval(&Op::Entry { p: p.to_string() }).first().map(|a| a.expect.clone()) {
        Some(crate::model::Expect::Exact(Outcome::Ok(Val::EntryF(v0, _, _, _)))) => Some(v0),
        _ => None,
    }
}

fn keep(f: &Filter, e: &EntryView) -> bool {
    match f {
        Filter::NameMod { m, r } => hash_str(e.file_name.as_deref().unwrap_or("")) % (*m).max(1) == *r,
        Filter::IsLink => e.link,
        Filter::NotLink => !e.link,
    }
}

pub struct Expected {
    pub items: Vec<EntryView>,
    pub loop_possible: bool,
    pub dangling: bool,
    pub window: (usize, usize),
}

pub fn window(o: &EntOpts) -> (usize, usize) {
    let (mut min, mut max) = (0usize, usize::MAX);
    let set_min = |min: &mut usize, max: &mut usize, v: usize| {
        *min = v;
        if *min > *max {
            *min = *max;
        }
    };
    let set_max = |min: &mut usize, max: &mut usize, v: usize| {
        *max = v;
        if *max < *min {
            *max = *min;
        }
    };
    if o.min_first {
        if let Some(v) = o.min {
            set_min(&mut min, &mut max, v);
        }
        if let Some(v) = o.max {
            set_max(&mut min, &mut max, v);
        }
    } else {
        if let Some(v) = o.max {
            set_max(&mut min, &mut max, v);
        }
        if let Some(v) = o.min {
            set_min(&mut min, &mut max, v);
        }
    }
    (min, max)
}

pub fn expected(m: &Model, root: &str, o: &EntOpts) -> Option<Expected> {
    let (min, max) = window(o);
    let r0 = view_of(m, root)?;
    let r = if o.follow { Model::followed(&r0) } else { r0 };
    let mut out = vec![];
    let mut loop_possible = false;
    let mut dangling = false;
    // explicit stack: (entry, depth, chain of directory paths being iterated)
    let mut stack: Vec<(EntryView, usize, Vec<String>)> = vec![(r, 0, vec![])];
    let mut guard = 0;
    while let Some((e, depth, chain)) = stack.pop() {
        guard += 1;
        if guard > 20_000 {
            loop_possible = true;
            break;
        }
        if e.dir && (!e.link || o.follow) {
            if e.link && chain.contains(&e.path) {
                loop_possible = true;
            } else if e.link && m.k(&e.path) == K::Missing {
                // a followed link whose directory target is gone: an error item is tolerated
                dangling = true;
            } else if depth < max {
                let mut ch = chain.clone();
                ch.push(e.path.clone());
                for c in m.t.children(&e.path) {
                    if let Some(v) = view_of(m, &c) {
                        let v = if o.follow { Model::followed(&v) } else { v };
                        stack.push((v, depth + 1, ch.clone()));
                    }
                }
            }
        }
        if depth < min {
            continue;
        }
        let pass = if let Some(f) = &o.filter {
            keep(f, &e)
        } else if o.files {
            e.file
        } else if o.dirs {
            e.dir
        } else {
            true
        };
        if pass {
            out.push(e);
        }
    }
    Some(Expected { items: out, loop_possible, dangling, window: (min, max) })
}

fn location(e: &EntryView) -> &str {
    if e.link && e.following {
        &e.alt
    } else {
        &e.path
    }
}

/// Judge the yielded sequence. Err((signature part, detail)).
pub fn check(m: &Model, praw: &str, o: &EntOpts, items: &[Result<EntryView, String>], ended: bool) -> Result<(), (String, String)> {
    let root = match m.abs(praw) {
        Ok(r) => r,
        Err(_) => return Ok(()),
    };
    let exp = match expected(m, &root, o) {
        Some(e) => e,
        None => return Ok(()),
    };
    if !ended {
        return Err(("non-termination".into(), format!("iterator still yielding after {} next() calls", items.len())));
    }
    let oks: Vec<&EntryView> = items.iter().filter_map(|x| x.as_ref().ok()).collect();
    let errs: Vec<&String> = items.iter().filter_map(|x| x.as_ref().err()).collect();
    let key = |e: &EntryView| format!("{}|{}|{}{}{}{}|{:o}", e.path, e.alt, e.dir as u8, e.file as u8, e.link as u8, e.following as u8, e.mode);
    let mut want: BTreeMap<String, i64> = BTreeMap::new();
    for e in &exp.items {
        *want.entry(key(e)).or_insert(0) += 1;
    }
    let mut got: BTreeMap<String, i64> = BTreeMap::new();
    for e in &oks {
        *got.entry(key(e)).or_insert(0) += 1;
    }
    if exp.loop_possible || exp.dangling {
        // whatever was yielded before the traversal stopped must be legitimate: nothing outside
        // the selection and nothing more often than the selection holds it
        let extra: Vec<&String> = got.iter().filter(|(k, n)| **n > want.get(*k).copied().unwrap_or(0)).map(|(k, _)| k).collect();
        if !extra.is_empty() {
            return Err(("extra-items-before-stop".into(), format!("yielded outside / beyond the selection: {:?}", extra)));
        }
    }
    if exp.loop_possible {
        for (i, it) in items.iter().enumerate() {
            if let Err(k) = it {
                let fine = k == "Path::LinkLooping" || (exp.dangling && k == "Path::DoesNotExist");
                if !fine {
                    return Err(("loop-wrong-error".into(), format!("error {} while following a link cycle", k)));
                }
                if i != items.len() - 1 {
                    return Err(("loop-continues".into(), "iteration continued after an error".into()));
                }
            }
        }
        if errs.is_empty() && exp.window.1 == usize::MAX && !exp.dangling {
            return Err(("loop-not-reported".into(), "followed link cycle but no LinkLooping error".into()));
        }
        return Ok(());
    }
    if exp.dangling {
        // following a dangling link to a directory: either it is passed over or the traversal
        // stops with DoesNotExist; items yielded before must still be legitimate
        if errs.iter().any(|k| *k != "Path::DoesNotExist") || (!errs.is_empty() && items.last().map(|x| x.is_ok()).unwrap_or(false)) {
            return Err(("dangling-wrong-error".into(), format!("errors yielded: {:?}", errs)));
        }
        if !errs.is_empty() {
            return Ok(());
        }
    }
    if !errs.is_empty() {
        return Err(("unexpected-error".into(), format!("errors yielded: {:?}", errs)));
    }
    // a custom filter given together with dirs()/files(): the documentation does not say whether
    // it replaces the kind filter or is applied on top of it; both readings are accepted
    if want != got && o.filter.is_some() && (o.files || o.dirs) {
        let mut o2 = o.clone();
        o2.filter = None;
        if let Some(exp2) = expected(m, &root, &o2) {
            let f = o.filter.as_ref().unwrap();
            let mut want2: BTreeMap<String, i64> = BTreeMap::new();
            for e in exp2.items.iter().filter(|e| keep(f, e)) {
                *want2.entry(key(e)).or_insert(0) += 1;
            }
            if want2 == got {
                want = want2;
            }
        }
    }
    // multiset equality
    if want != got {
        let mut extra = vec![];
        let mut missing = vec![];
        for (k, n) in &got {
            let w = want.get(k).copied().unwrap_or(0);
            if *n > w {
                extra.push(k.clone());
            }
        }
        for (k, n) in &want {
            let g = got.get(k).copied().unwrap_or(0);
            if *n > g {
                missing.push(k.clone());
            }
        }
        let what = match (extra.is_empty(), missing.is_empty()) {
            (false, true) => "extra-items",
            (true, false) => "missing-items",
            _ => "wrong-items",
        };
        return Err((what.into(), format!("extra {:?} missing {:?}", extra, missing)));
    }
    // order constraints need unambiguous positions
    let mut pos: BTreeMap<&str, Vec<usize>> = BTreeMap::new();
    for (i, e) in oks.iter().enumerate() {
        pos.entry(e.path.as_str()).or_default().push(i);
    }
    let unique = pos.values().all(|v| v.len() == 1);
    if !unique {
        return Ok(());
    }
    // with followed links the same directory is reachable by several routes and "the parent" /
    // "the siblings" of an item are no longer well defined by its path: multiset only
    let multi_route = o.follow && m.t.nodes.values().any(|n| n.kind == crate::tree::Kind::Link);
    // siblings are still well defined when every yielded item has its own location
    let mut locs: Vec<&str> = oks.iter().map(|e| location(e)).collect();
    locs.sort();
    let unique_locations = locs.windows(2).all(|w| w[0] != w[1]);
    if multi_route && !unique_locations {
        return Ok(());
    }
    // parents before contents (after with contents_first); a followed link carries its target's
    // path, so with followed links among the items "the entry at the parent path" is ambiguous
    let followed_present = oks.iter().any(|e| e.link && e.following);
    for (i, e) in oks.iter().enumerate() {
        if followed_present || multi_route {
            break;
        }
        if let Some(par) = parent(location(e)) {
            if let Some(pi) = pos.get(par.as_str()) {
                let pi = pi[0];
                if pi == i {
                    continue;
                }
                if !o.contents_first && pi > i {
                    return Err(("parent-after-content".into(), format!("{} yielded before its parent {}", e.path, par)));
                }
                if o.contents_first && pi < i {
                    return Err(("parent-before-content".into(), format!("{} yielded after its parent {} despite contents_first", e.path, par)));
                }
            }
        }
    }
    // sibling order
    let sorted = o.sort_by_name || o.dirs_first || o.files_first;
    if sorted {
        let mut groups: BTreeMap<String, Vec<&EntryView>> = BTreeMap::new();
        for e in &oks {
            if location(e) == root || e.path == root {
                continue;
            }
            if let Some(par) = parent(location(e)) {
                groups.entry(par).or_default().push(e);
            }
        }
        // with both grouping options set the documentation does not say which wins: the siblings
        // must be grouped by kind one way or the other
        let rankings: Vec<(bool, bool)> = if o.dirs_first && o.files_first { vec![(true, false), (false, true)] } else { vec![(o.dirs_first, o.files_first)] };
        let mut first_err = None;
        let mut some_ok = false;
        for (df, ff) in rankings {
            let mut err = None;
            'groups: for (par, g) in &groups {
                // kind grouping first
                let group_rank = |e: &EntryView| -> u8 {
                    if df {
                        if e.dir {
                            0
                        } else {
                            1
                        }
                    } else if ff {
                        if e.dir {
                            1
                        } else {
                            0
                        }
                    } else {
                        0
                    }
                };
                for w in g.windows(2) {
                    let (a, b) = (w[0], w[1]);
                    let (ra, rb) = (group_rank(a), group_rank(b));
                    if ra > rb {
                        err = Some(("kind-grouping".to_string(), format!("under {}: {} before {}", par, a.path, b.path)));
                        break 'groups;
                    }
                    if ra == rb && a.file_name.as_deref().unwrap_or("").as_bytes() > b.file_name.as_deref().unwrap_or("").as_bytes() {
                        err = Some(("sibling-order".to_string(), format!("under {}: {} before {}", par, a.path, b.path)));
                        break 'groups;
                    }
                }
            }
            match err {
                None => some_ok = true,
                Some(e) => {
                    if first_err.is_none() {
                        first_err = Some(e);
                    }
                },
            }
        }
        if !some_ok {
            if let Some(e) = first_err {
                return Err(e);
            }
        }
    }
    Ok(())
}
