//! Observable tree state (names, kinds, bytes, link targets, modes, owners, cwd), the C03 integrity
//! invariant on a raw Memfs snapshot, and the independent std::fs observer of a sandbox.
use std::collections::{BTreeMap, BTreeSet};

use rivia::verif::VerifSnapshot;
use serde::{Deserialize, Serialize};

use crate::ops::Bytes;

#[derive(Clone, Copy, Debug, PartialEq, Eq, PartialOrd, Ord, Serialize, Deserialize)]
pub enum Kind {
    Dir,
    File,
    Link,
}

#[derive(Clone, Debug, PartialEq, Eq, Serialize, Deserialize)]
pub struct Node {
    pub kind: Kind,
    pub mode: u32,
    pub uid: u32,
    pub gid: u32,
    /// File content (Kind::File only)
    pub data: Option<Bytes>,
    /// Absolute link target (Kind::Link only)
    pub target: Option<String>,
    /// Relative link target as stored (Kind::Link only)
    pub rel: Option<String>,
    /// For links: the link claims to point to a directory
    pub link_dir: bool,
}

impl Node {
    pub fn dir(mode: u32) -> Node {
        Node { kind: Kind::Dir, mode, uid: 1000, gid: 1000, data: None, target: None, rel: None, link_dir: false }
    }
    pub fn file(mode: u32, data: Vec<u8>) -> Node {
        Node { kind: Kind::File, mode, uid: 1000, gid: 1000, data: Some(Bytes(data)), target: None, rel: None, link_dir: false }
    }
    pub fn link(target: String, rel: String, link_dir: bool) -> Node {
        Node { kind: Kind::Link, mode: 0o120777, uid: 1000, gid: 1000, data: None, target: Some(target), rel: Some(rel), link_dir }
    }
}

#[derive(Clone, Debug, PartialEq, Eq, Serialize, Deserialize)]
pub struct Tree {
    pub cwd: String,
    pub nodes: BTreeMap<String, Node>,
}

impl Default for Tree {
    fn default() -> Self {
        let mut nodes = BTreeMap::new();
        nodes.insert("/".to_string(), Node::dir(0o40755));
        Tree { cwd: "/".into(), nodes }
    }
}

pub fn parent(p: &str) -> Option<String> {
    if p == "/" {
        return None;
    }
    match p.rfind('/') {
        Some(0) => Some("/".to_string()),
        Some(i) => Some(p[..i].to_string()),
        None => None,
    }
}

pub fn base(p: &str) -> &str {
    match p.rfind('/') {
        Some(i) => &p[i + 1..],
        None => p,
    }
}

pub fn join(dir: &str, name: &str) -> String {
    if dir == "/" {
        format!("/{}", name)
    } else {
        format!("{}/{}", dir, name)
    }
}

/// true when `p` is `root` or lexically below it
pub fn is_under(p: &str, root: &str) -> bool {
    if root == "/" {
        return true;
    }
    p == root || (p.starts_with(root) && p.as_bytes().get(root.len()) == Some(&b'/'))
}

pub fn depth(p: &str) -> usize {
    if p == "/" {
        0
    } else {
        p.matches('/').count()
    }
}

impl Tree {
    pub fn children(&self, dir: &str) -> Vec<String> {
        let prefix = if dir == "/" { "/".to_string() } else { format!("{}/", dir) };
        self.nodes
            .range(prefix.clone()..)
            .take_while(|(k, _)| k.starts_with(&prefix))
            .filter(|(k, _)| k.len() > prefix.len() && !k[prefix.len()..].contains('/'))
            .map(|(k, _)| k.clone())
            .collect()
    }

    pub fn subtree(&self, root: &str) -> Vec<String> {
        self.nodes.keys().filter(|k| is_under(k, root)).cloned().collect()
    }

    pub fn kind(&self, p: &str) -> Option<Kind> {
        self.nodes.get(p).map(|n| n.kind)
    }

    pub fn is_dir(&self, p: &str) -> bool {
        self.kind(p) == Some(Kind::Dir)
    }

    /// Abstract shape digest: names+kinds+cwd (no data, no modes)
    pub fn shape_hash(&self) -> u64 {
        let mut h = crate::prng::hash_str(&self.cwd);
        for (k, n) in &self.nodes {
            h = crate::prng::hash_bytes(h, k.as_bytes());
            h = crate::prng::hash_bytes(h, &[n.kind as u8, n.link_dir as u8]);
        }
        h
    }

    pub fn full_hash(&self) -> u64 {
        let mut h = crate::prng::hash_str(&self.cwd);
        for (k, n) in &self.nodes {
            h = crate::prng::hash_bytes(h, k.as_bytes());
            h = crate::prng::hash_bytes(h, &[n.kind as u8, n.link_dir as u8]);
            h = crate::prng::hash_bytes(h, &n.mode.to_le_bytes());
            h = crate::prng::hash_bytes(h, &n.uid.to_le_bytes());
            h = crate::prng::hash_bytes(h, &n.gid.to_le_bytes());
            if let Some(d) = &n.data {
                h = crate::prng::hash_bytes(h, &d.0);
            }
            if let Some(t) = &n.target {
                h = crate::prng::hash_bytes(h, t.as_bytes());
            }
            if let Some(t) = &n.rel {
                h = crate::prng::hash_bytes(h, t.as_bytes());
            }
        }
        h
    }
}

/// What to compare between two trees
#[derive(Clone, Copy, Debug)]
pub struct Cmp {
    pub modes: bool,
    pub owners: bool,
    pub data: bool,
    pub targets: bool,
    pub rel: bool,
    pub link_kind: bool,
    pub cwd: bool,
    /// compare only permission bits (mode & 0o7777)
    pub perm_only: bool,
}

impl Cmp {
    pub const ALL: Cmp = Cmp { modes: true, owners: true, data: true, targets: true, rel: true, link_kind: true, cwd: true, perm_only: false };
    pub const SHAPE: Cmp = Cmp { modes: false, owners: false, data: false, targets: false, rel: false, link_kind: false, cwd: false, perm_only: false };
}

/// One difference between two trees (kind of delta first: it goes into signatures)
#[derive(Clone, Debug, PartialEq, Eq, PartialOrd, Ord)]
pub struct Delta {
    pub what: &'static str,
    pub path: String,
    pub detail: String,
}

/// Differences `actual` vs `expected`
pub fn diff(actual: &Tree, expected: &Tree, c: Cmp) -> Vec<Delta> {
    let mut out = vec![];
    if c.cwd && actual.cwd != expected.cwd {
        out.push(Delta { what: "cwd", path: actual.cwd.clone(), detail: format!("cwd {} expected {}", actual.cwd, expected.cwd) });
    }
    for (k, a) in &actual.nodes {
        match expected.nodes.get(k) {
            None => out.push(Delta { what: "extra-entry", path: k.clone(), detail: format!("{:?} not expected", a.kind) }),
            Some(e) => {
                if a.kind != e.kind {
                    out.push(Delta { what: "kind", path: k.clone(), detail: format!("{:?} expected {:?}", a.kind, e.kind) });
                    continue;
                }
                if c.modes {
                    let (am, em) = if c.perm_only { (a.mode & 0o7777, e.mode & 0o7777) } else { (a.mode, e.mode) };
                    if am != em {
                        out.push(Delta { what: "mode", path: k.clone(), detail: format!("{:o} expected {:o}", am, em) });
                    }
                }
                if c.owners && (a.uid != e.uid || a.gid != e.gid) {
                    out.push(Delta { what: "owner", path: k.clone(), detail: format!("{}:{} expected {}:{}", a.uid, a.gid, e.uid, e.gid) });
                }
                if c.data && a.data != e.data {
                    out.push(Delta { what: "content", path: k.clone(), detail: format!("{:?} expected {:?}", a.data, e.data) });
                }
                if c.targets && a.target != e.target {
                    out.push(Delta { what: "link-target", path: k.clone(), detail: format!("{:?} expected {:?}", a.target, e.target) });
                }
                if c.rel && a.rel != e.rel {
                    out.push(Delta { what: "link-rel", path: k.clone(), detail: format!("{:?} expected {:?}", a.rel, e.rel) });
                }
                if c.link_kind && a.kind == Kind::Link && a.link_dir != e.link_dir {
                    out.push(Delta { what: "link-kind", path: k.clone(), detail: format!("link_dir {} expected {}", a.link_dir, e.link_dir) });
                }
            },
        }
    }
    for (k, e) in &expected.nodes {
        if !actual.nodes.contains_key(k) {
            out.push(Delta { what: "missing-entry", path: k.clone(), detail: format!("{:?} expected", e.kind) });
        }
    }
    out
}

/// One breach of the C03 integrity invariant
#[derive(Clone, Debug, PartialEq, Eq, PartialOrd, Ord)]
pub struct Breach {
    pub what: &'static str,
    pub path: String,
}

fn lossy(p: &std::path::Path) -> String {
    p.to_string_lossy().into_owned()
}

fn is_clean_abs(p: &str) -> bool {
    if !p.starts_with('/') {
        return false;
    }
    if p == "/" {
        return true;
    }
    !p.ends_with('/') && p[1..].split('/').all(|c| !c.is_empty() && c != "." && c != "..")
}

/// C03 invariant (1)-(7) on the raw snapshot. Reachability (3) via the public API is checked
/// separately by the caller since it needs the live instance.
pub fn integrity(s: &VerifSnapshot) -> Vec<Breach> {
    let mut out = vec![];
    if s.poisoned {
        out.push(Breach { what: "poisoned-lock", path: String::new() });
    }
    let cwd = lossy(&s.cwd);
    let root = lossy(&s.root);
    if !is_clean_abs(&cwd) {
        out.push(Breach { what: "cwd-not-clean-absolute", path: cwd.clone() });
    }
    if root != "/" {
        out.push(Breach { what: "root-not-slash", path: root.clone() });
    }
    let keys: BTreeMap<String, &rivia::verif::VerifEntry> = s.entries.iter().map(|e| (lossy(&e.key), e)).collect();
    if keys.len() != s.entries.len() {
        out.push(Breach { what: "duplicate-key", path: String::new() });
    }
    if !keys.contains_key("/") {
        out.push(Breach { what: "root-missing", path: "/".into() });
    }
    for (k, e) in &keys {
        if !is_clean_abs(k) {
            out.push(Breach { what: "key-not-clean-absolute", path: k.clone() });
            continue;
        }
        if lossy(&e.path) != *k {
            out.push(Breach { what: "stored-path-differs-from-key", path: k.clone() });
        }
        if e.follow {
            out.push(Breach { what: "stored-entry-in-follow-state", path: k.clone() });
        }
        if (e.dir as u8 + e.file as u8) != 1 {
            out.push(Breach { what: "entry-kind-flags-inconsistent", path: k.clone() });
        }
        if let Some(par) = parent(k) {
            match keys.get(&par) {
                None => out.push(Breach { what: "orphan-parent-missing", path: k.clone() }),
                Some(pe) => {
                    if !pe.dir || pe.link {
                        out.push(Breach { what: "parent-not-a-real-directory", path: k.clone() });
                    }
                    let listed = pe.children.as_ref().map(|c| c.iter().any(|n| n == base(k))).unwrap_or(false);
                    if !listed {
                        out.push(Breach { what: "orphan-not-listed-by-parent", path: k.clone() });
                    }
                },
            }
        }
        if let Some(ch) = &e.children {
            let mut seen = BTreeSet::new();
            for n in ch {
                if !seen.insert(n.clone()) {
                    out.push(Breach { what: "duplicate-child-name", path: join(k, n) });
                }
                if n.is_empty() || n.contains('/') || !keys.contains_key(&join(k, n)) {
                    out.push(Breach { what: "listed-child-missing", path: join(k, n) });
                }
            }
            if !e.dir {
                out.push(Breach { what: "non-directory-has-child-set", path: k.clone() });
            }
        } else if e.dir && !e.link {
            out.push(Breach { what: "directory-without-child-set", path: k.clone() });
        }
    }
    let fkeys: BTreeSet<String> = s.files.iter().map(|f| lossy(&f.key)).collect();
    for f in &fkeys {
        match keys.get(f) {
            None => out.push(Breach { what: "dangling-data", path: f.clone() }),
            Some(e) => {
                if !e.file || e.link {
                    out.push(Breach { what: "data-on-non-regular-file", path: f.clone() });
                }
            },
        }
    }
    for (k, e) in &keys {
        if e.file && !e.link && !fkeys.contains(k) {
            out.push(Breach { what: "regular-file-without-data", path: k.clone() });
        }
    }
    out.sort();
    out.dedup();
    out
}

/// Observable tree of a raw snapshot (meaningful when `integrity` is clean, best effort otherwise)
pub fn tree_of(s: &VerifSnapshot) -> Tree {
    let data: BTreeMap<String, &Vec<u8>> = s.files.iter().map(|f| (lossy(&f.key), &f.data)).collect();
    let mut nodes = BTreeMap::new();
    for e in &s.entries {
        let k = lossy(&e.key);
        let kind = if e.link {
            Kind::Link
        } else if e.dir {
            Kind::Dir
        } else {
            Kind::File
        };
        nodes.insert(
            k.clone(),
            Node {
                kind,
                mode: e.mode,
                uid: e.uid,
                gid: e.gid,
                data: if kind == Kind::File { Some(Bytes(data.get(&k).map(|d| (*d).clone()).unwrap_or_default())) } else { None },
                target: if e.link { Some(lossy(&e.alt)) } else { None },
                rel: if e.link { Some(lossy(&e.rel)) } else { None },
                link_dir: e.link && e.dir,
            },
        );
    }
    Tree { cwd: lossy(&s.cwd), nodes }
}

/// Independent observer of a directory tree on disk: std::fs only, no rivia code.
/// Paths in the result are the real absolute paths; `root` itself is included.
pub fn observe_disk(root: &str) -> std::io::Result<Tree> {
    use std::os::unix::fs::{MetadataExt, PermissionsExt};
    let mut nodes = BTreeMap::new();
    let mut stack = vec![std::path::PathBuf::from(root)];
    while let Some(p) = stack.pop() {
        let meta = std::fs::symlink_metadata(&p)?;
        let k = lossy(&p);
        let ft = meta.file_type();
        if ft.is_symlink() {
            let t = std::fs::read_link(&p)?;
            let link_dir = std::fs::metadata(&p).map(|m| m.is_dir()).unwrap_or(false);
            nodes.insert(
                k,
                Node {
                    kind: Kind::Link,
                    mode: meta.permissions().mode(),
                    uid: meta.uid(),
                    gid: meta.gid(),
                    data: None,
                    target: None,
                    rel: Some(lossy(&t)),
                    link_dir,
                },
            );
        } else if ft.is_dir() {
            nodes.insert(
                k,
                Node { kind: Kind::Dir, mode: meta.permissions().mode(), uid: meta.uid(), gid: meta.gid(), data: None, target: None, rel: None, link_dir: false },
            );
            let mut names = vec![];
            for e in std::fs::read_dir(&p)? {
                names.push(e?.path());
            }
            names.sort();
            stack.extend(names);
        } else {
            let d = std::fs::read(&p)?;
            nodes.insert(
                k,
                Node {
                    kind: Kind::File,
                    mode: meta.permissions().mode(),
                    uid: meta.uid(),
                    gid: meta.gid(),
                    data: Some(Bytes(d)),
                    target: None,
                    rel: None,
                    link_dir: false,
                },
            );
        }
    }
    Ok(Tree { cwd: String::new(), nodes })
}
