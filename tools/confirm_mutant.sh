#!/bin/sh
# tools/confirm_mutant.sh <dir with patch.diff demo.rs meta.json>
# Confirms in a scratch worktree of /repo HEAD: patch applies, crate compiles, 224 lib tests pass,
# demo fails with the patch and passes without. Prints one line CONFIRMED/REJECTED.
d=$(cd "$1" && pwd)
wt=/tmp/confirm-wt-$$
git -C /repo worktree add -q --detach "$wt" HEAD || exit 2
cd "$wt" || exit 2
export CARGO_TARGET_DIR=/tmp/confirm-target CARGO_NET_OFFLINE=true
res=REJECTED; why=""
if git apply --check "$d/patch.diff" 2>/dev/null; then
  mkdir -p examples; cp "$d/demo.rs" examples/demo.rs
  if cargo run --offline -q --example demo >/dev/null 2>&1; then
    git apply "$d/patch.diff"
    t=$(cargo test --offline --lib 2>&1 | grep "^test result")
    case "$t" in *"224 passed; 1 failed"*)
      if timeout 120 cargo run --offline -q --example demo >/dev/null 2>&1; then why="demo passes with patch"; else res=CONFIRMED; fi;;
      *) why="tests: $t";; esac
  else why="demo fails on pristine"; fi
else why="patch does not apply"; fi
echo "$res $d $why"
cd /; git -C /repo worktree remove --force "$wt"
