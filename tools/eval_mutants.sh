#!/bin/sh
# tools/eval_mutants.sh <ID> [extra check ids...]: confirm and try the sub-agent mutants of /tmp/mut-<ID>/out/*
id=$1; shift
for d in ${MUTROOT:-/tmp/mut}-$id/out/*/; do
  n=$(basename $d)
  c=$(tools/confirm_mutant.sh $d)
  echo "### $id/$n: $c"
  case "$c" in CONFIRMED*)
    mkdir -p seeded/$id${SUF:-}-$n && cp $d/patch.diff $d/demo.rs $d/meta.json seeded/$id${SUF:-}-$n/
    tools/try_mutant.sh $d/patch.diff $id "$@" 2>&1 | cut -c1-260 | tee seeded/$id${SUF:-}-$n/result.txt;;
  esac
done
