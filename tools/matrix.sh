#!/bin/sh
# tools/matrix.sh: re-run every seeded change against the current checks (its property's own
# quick check first, then the checks named in its result.txt) and write seeded/MATRIX.txt.
# Nothing else may use /repo or build rvsim while this runs.
cd /verif
out=${MATRIX_OUT:-seeded/MATRIX.txt}
: > $out
for d in seeded/${ONLY:-*}/; do
  n=$(basename $d)
  [ -f $d/patch.diff ] || continue
  id=$(echo $n | sed -n 's/^\(own-\)\{0,1\}\(C[0-9][0-9]\).*/\2/p')
  [ -n "$id" ] || continue
  if ! git -C /repo apply --check $(readlink -f $d/patch.diff) 2>/dev/null; then
    echo "$n: patch no longer applies to the repaired tree (a later fix: commit touches the same lines)" >> $out; continue
  fi
  git -C /repo apply $(readlink -f $d/patch.diff)
  caught=""
  others=$(grep -a -o "== C[0-9][0-9] exit=1" $d/result.txt 2>/dev/null | cut -d' ' -f2 | sort -u | tr '\n' ' ')
  for c in $id $others; do
    case " $caught " in *" $c "*) continue;; esac
    o=$(RVSIM_OUT=/tmp/matrix-out ./check $c quick 2>&1); code=$?
    if [ $code -eq 1 ]; then caught="$caught $c"; [ "$c" = "$id" ] && break; fi
    if [ $code -ge 2 ]; then caught="$caught $c(harness-exit-$code)"; fi
  done
  git -C /repo checkout -- .
  if [ -n "$caught" ]; then echo "$n: caught by$caught" >> $out; else echo "$n: NOT caught (own check $id and: $others)" >> $out; fi
done
(cd /verif/sim && cargo build --release --offline >/dev/null 2>&1)
rm -rf /tmp/matrix-out
echo done >> $out
