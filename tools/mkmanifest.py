#!/usr/bin/env python3
"""Regenerates /verif/MANIFEST.json (run after changing the claim list)."""
import json, subprocess

HOOK_COMMITS = ["a107075", "8ec4bb8", "503c526", "d6a852f", "5a364b9"]

CLAIMED = {
    "C01": ("exploration", "SEQ world: seeded histories over the whole trait on the real Memfs, every step judged against the RefFs reference model (acceptable-outcome sets, documented error kinds, full state equality incl. failure-atomicity of single-target calls); a fixed share of runs are scale runs (hundreds of entries, 58 levels, files of several hundred kilobytes); builders kept across steps",
            "seeded simulation, reference-model refinement per step", "4 C01"),
    "C02": ("exploration", "DIFF world: the same generated (state, call) pairs and short histories on real Stdfs over a tmpfs sandbox and on Memfs; success/failure, returned values and the tree seen by an independent std::fs observer must agree",
            "seeded differential simulation against an independent disk observer", "4 C02"),
    "C03": ("exploration", "integrity invariant on the complete internal state (hook H2, cross-checked against Display) after every step of seeded histories incl. failing and hostile calls; every 8th run is a scheduled concurrent program (CONC leg) checked at every quiescent point and at the end",
            "seeded simulation, invariant on full snapshot after every step", "4 C03"),
    "C04": ("exploration", "CONC world: 2-3 real client threads on one shared Memfs, every scheduling decision at guard acquisition / operation boundaries taken by a seeded controlled scheduler (writer-preferring lock model); deadlock, panic, poison, C03 at quiescence, linearizability (values and error kinds) against sequential executions of the real code, append conservation; program families: general, append storm, append handles, cwd race, query vs. replacement, scale",
            "controlled-scheduler schedule search + linearizability check", "4 C04"),
    "C05": ("exploration", "abs() against an independent reference resolver under varied cwd/HOME, and every other method executed with respelled arguments next to a twin instance that receives the canonical spelling (outcomes and states must coincide), on Memfs and - in two sibling tmpfs sandboxes - on Stdfs; every string up to length 5 over the statement's alphabet x cwd x HOME walked in slices",
            "seeded simulation, metamorphic twin execution", "4 C05"),
    "C06": ("exploration", "content profile (write/append/line helpers/handles/copy/move) with all data kinds and handle faults F1-F4 against a byte-vector model; DIFF leg: the same operations incl. write/append handles (flushed after every write) on Stdfs and Memfs with an independent std::fs reader",
            "seeded simulation with handle-lifecycle fault injection, byte-vector model", "4 C06"),
    "C07": ("fault_enumeration", "handles as actors: read/seek sequences mirrored on a cursor model; write/append handles dropped at every point of their write sequence: for generated chunkings every prefix x {drop, drop by unwinding} x {file untouched, removed, replaced by a directory, replaced by a new file, moved} x {write, append} is executed and judged; DIFF leg: read/seek/write/append handle histories on Stdfs and Memfs side by side",
            "drop-point fault injection inside seeded histories", "4 C07"),
    "C08": ("exploration", "entries() option cross-product under simulator-chosen enumeration order and descriptor cap on trees with links, cycles and dangling links; multiset + stated order constraints from an independent traversal of the model; listing helpers strict; DIFF leg on Stdfs",
            "seeded simulation with enumeration-order / descriptor-cap injection", "4 C08"),
    "C09": ("exploration", "copy / copy_b (all Copier options) / move_p on generated trees and path pairs (nested, conflicting, links), pre/post state judged by the model; failed move leaves the state identical; DIFF leg on Stdfs; SOLO leg: Stdfs alone on trees with indirect links (source untouched by a successful copy, failed move changes nothing)",
            "seeded simulation, pre/post snapshot oracle", "4 C09"),
    "C10": ("exploration", "link laws after every symlink and on every query in link-bearing histories (readlink/readlink_abs, link exclusion, kind at creation, remove/chmod/chown act on the link, follow swaps once); DIFF leg on Stdfs incl. dangling targets; SOLO leg: link queries on Stdfs alone on trees with indirect links, judged by what the OS says about the same path",
            "seeded simulation, reference model of link semantics", "4 C10"),
    "C11": ("exploration", "chmod / chmod_b (all options, generated well-formed and malformed expressions) and chown / chown_b against an independent evaluator of the documented grammar and a which-entries-changed oracle; builders kept across steps and executed repeatedly; the 512 modes x 945 single clauses walked in slices; DIFF leg on Stdfs",
            "seeded simulation, independent grammar evaluator", "4 C11"),
    "C12": ("exploration", "hostile-client profile on Memfs: adversarial arguments in the middle of ordinary histories; outcome must be Ok/Err (no panic, watchdog for hangs) and a liveness probe plus poison flag after every failing call; every string up to length 3 over a 12-character adversarial alphabet fed to every path-taking method in slices. The Memfs clause is what is decided; the public path / string helpers are additionally called directly with the same hostile text (no-panic only), which is input generation rather than simulation and is labelled as auxiliary",
            "seeded simulation with hostile-argument injection, watchdog", "4 C12"),
    "C13": ("exploration", "every generated history executed in lock step directly and through Vfs / VfsEntry; transcripts (values, error kinds) and states must be identical; every VfsEntry is read through the enum and through the wrapped value across follow(true)/follow(false)/follow(true); the Vfs::Stdfs arms run against Stdfs in two sibling sandboxes (incl. handles and dangling links)",
            "seeded simulation, lock-step transcript comparison", "4 C13"),
    "C17": ("exploration", "per-run environment table (unset/empty/plain/with separators) installed in the worker process; templates through sys::expand and abs() judged by a reference expander",
            "configuration swarm under the environment seam", "4 C17"),
    "C18": ("exploration", "per-run XDG/HOME/PATH/SUDO environment + filesystem state; user::* lookups, getrids and config_dir(name) on Memfs and Stdfs judged by a reference lookup",
            "configuration swarm under the environment seam", "4 C18"),
    "C20": ("exploration", "every assert_vfs_* macro invoked at random points of generated histories under catch_unwind; panic/no-panic, message and effect judged by the model predicate; DIFF leg: same macros on Stdfs and Memfs",
            "seeded simulation, model predicate per macro", "4 C20"),
}

NOT_APPLICABLE = {
    "C14": "clean() is a pure function of one string: no schedule, state, fault, clock or environment for a simulator to control (deciding it is input enumeration, a different technique)",
    "C15": "path-helper laws are pure string functions of their explicit arguments; nothing nondeterministic or faultable to simulate",
    "C16": "relative() is a pure function of two paths; nothing nondeterministic or faultable to simulate",
    "C19": "iterator/string/option/defer helpers are pure functions and a language-level destructor-order fact; no concurrency, time, I/O or multi-party behaviour to simulate",
}

def main():
    import os, sys
    implemented = [l.strip() for l in open('/verif/tools/claimed.txt') if l.strip() and not l.startswith('#')]
    checks = []
    for pid in implemented:
        cat, text, tech, ref = CLAIMED[pid]
        checks.append({
            "property_id": pid,
            "quick_cmd": "./check %s quick" % pid,
            "thorough_cmd": "./check %s thorough" % pid,
            "evidence_file": "/verif/evidence/%s.json" % pid,
            "replay_cmd_template": "./check --replay {path}",
            "engine": "rvsim",
            "level_claimed": {"category": cat, "text": text + ". Sampling: a clean batch is evidence, not proof.", "design_ref": "DESIGN.md section " + ref},
            "level_note": "trusted base: RefFs reference model and reference path resolver (written from the trait documentation), hook H2 snapshot (cross-checked against Display), lock admission model (CONC), the harness itself (determinism self-test); runs as uid 0 with umask 022; bounded namespaces and short histories",
            "technique": "deterministic simulation with fault injection: " + tech,
        })
    na = [{"property_id": k, "reason": v} for k, v in NOT_APPLICABLE.items()]
    for pid in CLAIMED:
        if pid not in implemented:
            na.append({"property_id": pid, "reason": "not claimed (yet): check under construction, see DESIGN.md"})
    m = {
        "version": 1,
        "setup_cmd": "cd /verif/sim && CARGO_NET_OFFLINE=true cargo build --release --offline",
        "hooks": {
            "guard": "rivia_verif",
            "enable": "RUSTFLAGS=--cfg rivia_verif (set in /verif/sim/.cargo/config.toml; rvsim depends on /repo by path, so every check rebuilds from /repo's working tree)",
            "baseline_off_cmd": "cd /repo && cargo test --workspace --no-fail-fast --offline --lib",
            "source_commits": HOOK_COMMITS,
            "add_only": True,
        },
        "engines": [{"name": "rvsim", "path": "/verif/sim", "serves_properties": implemented,
                     "kind_free_text": "hand-written deterministic simulator (Rust): supervisor + worker processes, seeded PRNG, SEQ / CONC / DIFF / ENV worlds, reference model, controlled scheduler, minimiser, replay"}],
        "checks": checks,
        "not_applicable": na,
        "notes": "Known findings: /verif/known_findings.json (currently no listed finding; witnesses of repaired ones under /verif/replays/fixed). Repairs of genuine defects are 'fix:' commits in /repo, listed there as fixed entries. See DESIGN.md.",
    }
    json.dump(m, open('/verif/MANIFEST.json', 'w'), indent=1)
    print("claimed:", implemented)

main()
