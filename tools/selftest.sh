#!/bin/sh
# tools/selftest.sh [n]: determinism self-test. Every run index is executed in several different
# processes (forward order, reverse order, and split over 4 processes) and the identities of the
# event logs are compared. Any difference is a harness bug (exit 2), never an alarm.
n=${1:-2000}
bin=/verif/sim/target/release/rvsim
tmp=$(mktemp -d /tmp/rvselftest.XXXXXX)
rc=0
for id in C01 C03 C04 C05 C06 C07 C08 C09 C10 C11 C12 C13 C02 C17 C18 C20; do
  $bin selftest $id $n 0 > $tmp/a 2>/dev/null &
  $bin selftest $id $n 0 --reverse > $tmp/b 2>/dev/null &
  q=$((n/4))
  for k in 0 1 2 3; do $bin selftest $id $q $((k*q)) > $tmp/c$k 2>/dev/null & done
  wait
  sort -n $tmp/c0 $tmp/c1 $tmp/c2 $tmp/c3 > $tmp/c
  if cmp -s $tmp/a $tmp/b && cmp -s $tmp/a $tmp/c; then
    echo "$id: $n runs identical across 6 processes ($(cut -d' ' -f2 $tmp/a | sort -u | wc -l) distinct logs, $(awk 'NF>2' $tmp/a | wc -l) runs with a violation)"
  else
    echo "$id: DIVERGENCE"; diff $tmp/a $tmp/b | head -5; diff $tmp/a $tmp/c | head -5; rc=2
  fi
done
rm -rf $tmp /dev/shm/rvsim-*
exit $rc
