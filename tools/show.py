#!/usr/bin/env python3
"""print replay cases compactly: tools/show.py replays/new/*.json"""
import json, sys
for f in sys.argv[1:]:
    c = json.load(open(f))
    print('==', f.split('/')[-1], c.get('expect', {}).get('sig'))
    print('   env', c.get('env'), 'knobs', c.get('knobs'))
    for k in ('setup', 'ops'):
        for o in c.get(k, []) or []:
            print('    ', k[0], json.dumps(o, ensure_ascii=False)[:220])
    for i, t in enumerate(c.get('threads', []) or []):
        for o in t:
            print('     T%d' % i, json.dumps(o, ensure_ascii=False)[:220])
    if 'schedule' in c:
        print('   schedule', c['schedule'])
    print('   WHAT', str(c.get('what'))[:900])
