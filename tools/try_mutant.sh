#!/bin/sh
# tools/try_mutant.sh <patch.diff> <ID>...   apply to /repo, run the quick checks, undo
p=$(readlink -f "$1"); shift
git -C /repo apply "$p" || { echo "patch does not apply"; exit 2; }
for id in "$@"; do
  out=$(cd /verif && ./check $id quick 2>&1); code=$?
  echo "== $id exit=$code: $(echo "$out" | grep -a -c '^VIOLATION') violation(s); $(echo "$out" | grep -a -m1 'sig=' | cut -c1-200)"
done
git -C /repo checkout -- .
(cd /verif/sim && cargo build --release --offline >/dev/null 2>&1)  # never leave a binary built from a mutated tree behind
